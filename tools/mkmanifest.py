#!/usr/bin/env python3
"""Regenerates /verif/MANIFEST.json from the claims table below."""
import json, subprocess, os

ENV = "GOFLAGS=-mod=mod GOPROXY=off GOSUMDB=off GOTOOLCHAIN=local"
TB = ("Trusted base: go/types+go/ssa (x/tools v0.29.0) front end, the govc VC generator in /verif (guarded by the "
      "must-fail selftest corpus), z3 4.8.12 / z3 5.1.0 / cvc5 1.0.3 (an obligation counts only if one says unsat and none says sat). "
      "Assumed: A2 strings as byte sequences, A3/A4 value semantics of slices/maps (no aliasing between inputs; guarded on every run by the structural obligation slices-and-maps-received-by-value-are-not-written, which every property carries), A5 globals written only in init (structural obligation), "
      "assumed contracts of external libraries listed per run in the evidence file. ")

HALF = 'Build-time half only: what the templates emit from the compiled Output and what the runtime library does with it are outside the technique (no verifier for text/template; the runtime is an external module). '
CLAIMS = {
 "C12": dict(
   technique="contract-based deductive verification: zero-annotation safety sweep (index/slice bounds, nil dereference, nil map write, unchecked type assertion, explicit panic, overflow, callee preconditions) over go/ssa of every function of /repo, SMT; structural termination obligations",
   text=("For every non-generated function of /repo (with or without a functional contract) govc generates a safety obligation at each potentially panicking instruction and discharges it for all inputs under the function's stated precondition; "
         "callers discharge callee preconditions at static call sites. Structural obligations: the static call graph has no recursion, every loop is a range loop (or carries a decreases clause), there are no goroutines, and os.WriteFile in the code generator is the only file-mutating call. "
         "Preconditions that remain are of three kinds, all listed in the contracts: injected collaborators are non-nil (composition root), resolvers are asked only about arguments they support (proved at ArgResolver), and a printed line fits the row / EndIndent follows Indent (proved at StepVerboseSwitchable)."),
   note=("Not proved: that the composition root (internal/gontainer, reflection-driven runtime) wires non-nil collaborators and that validation precedes the compile steps (Compiler.Compile is proved to stop at the first failing step; the step order is wiring), termination and panic-freedom of external libraries (yaml.v3, cobra, gonum cycle enumeration, goimports, text/template), stdout write failures (A13). "
         "Trusted (bodies not verified): types.IsPrimitive, template.createDefaultFunctions, template.(tpl).exec, input.init#2 (regex.Match is verified against assumed contracts of regexp; DecorateStepVerboseSwitchable under the precondition that the decorated service implements Step). Repository functions without contract are executed in place at their call sites. cmd.buildRunner is verified against assumed contracts of the DI runtime and of the generated container (contracts/assumed/container.spec). Functions not under contract have their callees' effects havoc'ed. A structural obligation per package guards the value semantics of slices (no element store through, and no append to a re-slice of, a slice received by value). " + TB),
   design="DESIGN.md section 4 C12"),
 "C05": dict(
   technique="contract-based deductive verification: contracts on the real scope conversion and shared-on-contextual validator over go/ssa with a ghost edge relation for the library graph, SMT",
   text=("Proof that the scope keyword tables map exactly shared/contextual/non_shared to their constants (global invariant proved for init), that Scope.UnmarshalYAML accepts only keyword values, "
         "that processScopes gives every compiled service the image of the declared scope of the service with the same name (unset -> default) and changes nothing else, "
         "that BuildDependencyGraph hands the library exactly the edges of the dependency relation (both directions), and that ValidateServicesScopes returns nil exactly when no service declared shared reaches a service declared contextual in that graph."),
   note=(HALF + "Instance identity across Get calls and the mapping of output.Scope to runtime setters are template/runtime. The library graph is modelled by a ghost edge relation with assumed contracts for AddService/…DependsOn…/Deps (A11: Deps(id) returns exactly the nodes reachable from service id; reach is transitive and contains edges, but minimality of reachability is not axiomatised). Error texts naming both services are opaque. " + TB),
   design="DESIGN.md section 4 C05"),
 "C07": dict(
   technique="contract-based deductive verification: graph-exactness contract (ghost edge relation, set-valued specification functions) on the real BuildDependencyGraph over go/ssa, SMT",
   text=("Proof, for all Outputs of any size, that the graph handed to the cycle finder has exactly the edges of the dependency relation of the property: service -> each referenced service, parameter and tag (through arguments, calls, fields via AllArgs, itself proved sound and complete), "
         "tag -> each service carrying it, service -> the decoration node of each of its tags, decoration node -> each decorator on that tag, decorator -> everything its arguments reference, parameter -> each referenced parameter; every such edge is present and no other. "
         "ValidateCircularDeps returns nil iff the library reports that graph acyclic."),
   note=("The cycle enumeration itself (gonum topo.DirectedCyclesIn through the helpers' graph package) is an assumed contract: CircularDeps() is empty iff the edge relation is acyclic (A11). Contracting the intermediate tag/decoration nodes preserves (a)cyclicity (M3, stated not machine-checked). The custody chain from YAML text to the DependsOn* lists is C02/C03/C06. " + TB),
   design="DESIGN.md section 4 C07"),
 "C02": dict(
   technique="contract-based deductive verification: contracts on the real resolver chain and service compilation steps over go/ssa, SMT (strings, regex captures, arrays)",
   text=("Proof that the compiled Output is a faithful, order-preserving image of each declared service: ArgResolver returns what the first supporting strategy returns and only asks strategies that support the argument; "
         "each argument form is classified and compiled as documented (non-string primitive keeps its value, @name depends on exactly that service, !tagged t on exactly that tag, $gontainer / !value have no dependencies, other strings are patterns); "
         "resolveArgs / serviceCalls / serviceTags keep length and order, serviceFields yields one field per key in strictly increasing name order, processService maps a todo service to a bare placeholder and any other service attribute by attribute, "
         "StepCompileServices.Process yields one service per declaration sorted by name with the declared scope; string arguments go through the token pipeline of C03 (one token per chunk, several tokens concatenated in order); every constructor stores each collaborator in its own field; Builder.Build renders exactly the compiled Output it was given (body then head, both from the same data)."),
   note=(HALF + "Partly covered: CompileServiceValue / serviceConstructor / serviceType keep the pointer prefix and emit local and current-package forms as written; the qualified form alias(import).symbol is not stated (word equations over regex captures time out), exporter.MustExport's Go literal. Resolving is treated as a function of the argument for one compilation (assumed contracts of the injected interfaces). " + TB),
   design="DESIGN.md section 4 C02"),
 "C03": dict(
   technique="contract-based deductive verification: contracts on the real chunker (loop invariants, definitional recursion, induction lemmas), token factories, tokenizer and pattern resolver over go/ssa, SMT; regex language equivalence for the token grammars",
   text=("Proof that Chunker.Chunks cuts the string without dropping, adding or reordering text (the chunks concatenate to the input), that every chunk is a non-empty literal without % or a %...% token, that it fails iff the number of % is odd, that toExpr strips exactly the two delimiters, that chunks are classified by the first supporting factory (registered functions are prepended, so they come first), that %% is a literal percent, %name% a reference whose dependency list names exactly the referenced parameter, plain text a string token, "
         "unexpected functions/tokens are rejected at build time, the tokenizer yields one token per chunk in order and accepts iff every chunk is accepted, a single token keeps its type (dependencyProvider of that token) and an empty token list is an error, "
         "a pattern depends on exactly the parameters its tokens reference, parameters cannot depend on services or tags, and the built-in functions are exactly env/envInt/todo."),
   note=(HALF + "Assumption A7 for Chunks and toExpr: the strings they range over / convert to []rune are valid UTF-8 (YAML guarantees it), so rune k occupies a byte segment and string(r) is that segment. joinTo and pct are definitional recursions (axioms); their frame lemmas are proved by induction. What the emitted closures compute at run time is outside. " + TB),
   design="DESIGN.md section 4 C03"),
 "C04": dict(
   technique="contract-based deductive verification: order/length-preservation contracts on the real tag and decorator compilation and merge functions over go/ssa, SMT",
   text=("Proof that tags reach the Output with their names, priorities and order (serviceTags), that decorators are compiled one-to-one in declaration order with their tag and resolved arguments (StepCompileDecorators), "
         "that merging appends tags and decorators in file order (C09 contracts), that !tagged t depends on exactly tag t, that duplicate tags on one service are rejected, that Tag.UnmarshalYAML accepts exactly a plain string (priority 0) or a mapping with a string name and an optional int priority and stores them, that decorator arguments are resolved by the same first-supporting-strategy chain as service arguments, and that Builder.Build hands the templates the Output unchanged (decorators in declaration order)."),
   note=(HALF + "Priority-descending/name-ascending ordering of GetTaggedBy and the decorator call protocol live in the runtime library (assumed). The YAML callback handed to UnmarshalYAML is modelled as a function of the callback and the target type (assumed of yaml.v3). " + TB),
   design="DESIGN.md section 4 C04"),
 "C15": dict(
   technique="contract-based deductive verification: contracts on the real todo handling (validation exemption, placeholder compilation, declared-name sets, built-in function table) over go/ssa, SMT",
   text=("Proof that services marked todo are exempt from attribute validation but must have a well-formed name, that processService compiles a todo service to a bare placeholder (name and Todo only, nothing resolved) regardless of its other attributes, "
         "that the existence validators count todo entries as declared (declared-name sets look at names only), and that the built-in parameter functions are exactly env, envInt and todo bound to the generated helpers."),
   note=(HALF + "What a todo parameter/service returns at run time, OverrideParam/OverrideService and lazy evaluation are generated-code/runtime behaviour. " + TB),
   design="DESIGN.md section 4 C15"),
 "C08": dict(
   technique="contract-based deductive verification: functional contracts that determine results independently of map order (go/ssa + SMT) plus structural order-independence obligations on every raw map range of the SSA",
   text=("Every raw `range` over a map in /repo (the set is recomputed from the SSA on each run, zero annotations) must meet one of four criteria: point-wise stores at the loop key; stores at the loop value with a proved injectivity obligation; "
         "collect-then-sort; or a contract proved to determine the result. On top: maps.Keys is proved to return each key once in strictly increasing order, maps.Iterate is proved to call its callback once per key in that order, "
         "imports.Imports() is strictly increasing in the path, decorateImport's contract is proved to admit one result, mergeMap is specified point-wise, the scope keyword tables are fixed by a proved global invariant. "
         "Structural obligations on the call graph: no reads of environment, clock, working directory or randomness, no goroutines, package-level variables written only in init."),
   note=("Assumed: yaml.v3 decoding into maps loses key order, goimports/gofmt/gonum/fatih-color are deterministic; M2 is proved in package maps (sorted_enumeration_* lemmas). " + TB),
   design="DESIGN.md section 4 C08"),
 "C10": dict(
   technique="contract-based deductive verification: contracts over a ghost trace of effectful calls on the real runner steps (go/ssa), SMT; structural single-writer obligation on the SSA call graph",
   text=("Proof over the step algebra, for all step lists and all step behaviours: Runner.Run runs the steps in order up to and including the first failing one and returns exactly that step's error, nil iff all ran and returned nil; "
         "StepAmalgamated runs every sub-step once and accepts iff all accept; StepVerboseSwitchable runs its parent exactly once when active (returning its verdict unchanged, Indent/EndIndent balanced) and not at all when inactive; "
         "StepCodeGenerator calls Build exactly once, calls os.WriteFile at most once, only after a successful Build, with filepath.Clean(-o) and exactly Build's string, and succeeds iff the write succeeded; "
         "the END line of a failing step reports exactly len(grouperror.Collection(err)) errors; findFiles returns cleaned paths in lexical order; the RunE closure of NewBuildCmd hands its flags to the composition root unchanged, gives it io.Discard as writer under --quiet, returns the failing step's error unchanged (nil iff every step succeeded), prints nothing itself on success and on failure prints its error list only to that same writer with exactly one numbered line per collected error; buildRunner hands each payload field to the DI container under its own parameter name; Builder.Build returns the formatter's result for head+body and reports a failing template or formatter; CodeFormatter.Format yields no text on a syntax error; StepReadConfig.Run fails when there is no pattern, when a pattern is malformed, when any matched file cannot be read or parsed (even next to files that are fine) and when no file could be processed. Structural obligation: that os.WriteFile call is the only file-mutating call in the repository, so on any failure before it the -o path is untouched."),
   note=("Not covered (evaluated/assumed, not proved): what the generated container (internal/gontainer) wires from the parameters buildRunner sets (which steps in which order, that the generator is last: evaluated by the composition test for all four flag combinations), the numbering text of the error list (fatih/color calls are assumed effects recorded with their writer), os.WriteFile's own atomicity (A13). main is proved to exit non-zero exactly when the command returns an error. "
         "Each function's contract speaks about its own direct effectful calls; the end-to-end statement is the composition of these contracts given the wiring. " + TB),
   design="DESIGN.md section 4 C10"),
 "C16": dict(
   technique="contract-based deductive verification: contracts over a ghost trace of effectful calls on the real switchable/amalgamated steps (go/ssa), SMT",
   text=("Proof that an inactive StepVerboseSwitchable does not run its parent, returns nil and leaves input and output untouched, that an active one returns the parent's verdict unchanged, that Active(b) changes nothing but the flag, "
         "that StepAmalgamated runs all rule steps regardless of each other's verdict and accepts iff every one accepts, that StepOutputValidationRule returns exactly its rule's verdict on an unmodified Output, "
         "that the RunE closure of NewBuildCmd passes paramsExistActive = !--ignore-missing-params and servicesExistActive = !--ignore-missing-services (and nothing else, e.g. not --stub) to the composition root, "
         "and (from C06, C05, C07) that the rules have exact accept-iff contracts that do not look at each other. Hence deactivating a rule removes exactly that rule's diagnostics and nothing else."),
   note=("buildRunner is proved to call Active on the step returned by MustGetStepValidateParamsExist with paramsExistActive, on the one returned by MustGetStepValidateServicesExist with servicesExistActive, and on nothing else; each command-line flag is proved to be registered on its own variable. Not covered (assumed, evaluated for all four flag combinations): that those two generated getters return the steps wrapping exactly the missing-parameters / missing-services rules, and byte-identity of the generated file. " + TB),
   design="DESIGN.md section 4 C16"),
 "C14": dict(
   technique="contract-based deductive verification: contracts and a data-structure invariant on the real imports table over go/ssa, string/regex SMT",
   text=("Proof that decorateImport resolves a reference through the alias table on whole path segments only (the alias that applies is the first path segment; a lemma shows no other alias can match), "
         "that Alias keeps the import-table invariant (every used path has the local name i<hex(c)>_<sanitised last element> of a distinct counter value, hence the same package always gets the same name and different packages never share one), "
         "that RegisterPrefixAlias rejects exactly duplicates, that Imports() lists every used package once in strictly increasing path order, that SanitizeImport maps quoted/unquoted/'.' forms as documented, "
         "that StepCompileMeta registers every alias of meta.imports before any function and that functions resolve their import when a token is created (never at registration), that local and current-package (\".\") forms of constructor / type / decorator references are emitted unqualified and the pointer prefix is kept, "
         "that CodeFormatter.Format always passes the gofmt'ed source through the import-pruning pass (in normal and in stub mode) and that Builder.Build renders the body before the head (the head lists what the body imported), and that the alias and import grammars equal their documented languages."),
   note=("Build-time half. Not covered: the qualified forms alias(import).symbol of references (word equations over regex captures: the obligations time out and were dropped), goimports' own pruning logic, linking. Known finding D5 (listed in known_findings.json, reported as KNOWN-FINDING, not repaired): an alias equal to the first path segment of a package the generator imports itself (fmt, github.com) captures that import; stated as lemma generator_imports_denote_themselves, which fails. "
         "hex/sanitise/last-segment are abstract functions with an assumed injectivity axiom. " + TB),
   design="DESIGN.md section 4 C14"),
 "C11": dict(
   technique="contract-based deductive verification: regex language equivalence (SMT RegLan) + accept-iff contracts on every validator over go/ssa, SMT",
   text=("Proof in two layers. (1) For each of the 31 grammar regular expressions compiled anywhere in /repo, the language of the constant the compiler sees (wrapped as MustCompileAz wraps it) "
         "equals an independently written specification language (intersections/complements of simple conditions composed as the docs compose them), for all strings. "
         "(2) Every validator of package input (meta, params, services incl. creation-method rules, getters, calls, fields, duplicate tags, decorators, Validator.Validate) returns nil exactly when the documented conjunction holds; "
         "todo services are checked for their name only; the loop over the nine service validators is proved to run each of them. (3) The four UnmarshalYAML methods accept exactly the documented node shapes (scope keyword; version string; tag string or name/priority mapping; call of one to three elements string / sequence / bool, an explicit null not counting as omitted), and a malformed special argument (@..., !value ..., !tagged ...) is an error of the first supporting resolver, never silently re-read as a pattern."),
   note=("Not covered: diagnostics text (message texts are opaque; that every violation is reported is the structural no-early-exit obligation plus the accept-iff contracts; that the final list has one line per collected error is proved for the build command), the YAML parser in front of the UnmarshalYAML methods (their decode callback is assumed to be a function of the callback and the target type). "
         "types.IsPrimitive (reflect) has a trusted contract; reservedGetters (reflect, A10) is an assumed global invariant. Duplicate getters and the getter 'Container' used to be accepted (genuine defect D3, repaired by fix commit cee442c; now proved rejected). " + TB),
   design="DESIGN.md section 4 C11"),
 "C13": dict(
   technique="contract-based deductive verification: truth-table contract on getter(), defaults of StepCompileMeta, getter-uniqueness postcondition on ValidateServices (loop invariants over the sorted keys), collision lemmas over ValidateServiceGetter's and ValidateServices' contracts, SMT",
   text=("Proof that StepCompileServices.getter implements the property's truth table (getter as configured or empty; must-getter iff getter set and must_getter true or unset with default_must_getter true; explicit must_getter without getter is an error), "
         "that package/type/constructor names are the configured ones or main/Gontainer/NewGontainer, that ValidateServiceGetter accepts exactly non-reserved Go identifiers without Must prefix / InContext suffix, "
         "that ValidateServices accepts only configurations in which no two services that get getter methods share a getter (and never the name of the embedded Container field), and lemmas that the four method names generated for accepted getters cannot collide with the runtime API, with the embedded field or across services, also not via the Must/InContext affixes."),
   note=("Build-time half only: that body-container-getters.go.tpl emits exactly those methods with those signatures is template text (outside the technique). Equal getters on two services and the getter 'Container' were accepted before fix commit cee442c (genuine defect D3, repaired; recorded as fixed in known_findings.json). " + TB),
   design="DESIGN.md section 4 C13"),
 "C18": dict(
   technique="contract-based deductive verification: VCs over go/ssa of the real version gate against assumed axioms of x/mod/semver, SMT",
   text=("Proof that ValidateVersion implements the truth table of the property for every (B, V): skipped iff no version is declared or the build is not semver; "
         "for build major 0 accepted iff V has major 0 and the same minor; for major >= 1 iff same major and minor not greater; patch, prerelease and build never appear. "
         "NewVersionValidator and Version.UnmarshalYAML are under contract too: a version is accepted iff it is a YAML string that is a semantic version once v is put in front (anything else, e.g. a number, is a parse error for every build), and is stored as written; Merge keeps a declared version (later file wins) whatever else the files contain; buildRunner hands version and build info to the container under their own names."),
   note=("semver.IsValid/Major/MajorMinor/Compare are assumed contracts over an abstract parser (svValid, svMaj, svMin; A12, read off semver.go). main.buildVersion$1 (strips a leading v from the linker-provided version) is proved; the RunE closure is proved to pass version and buildInfo unswapped; that the generated container feeds its %version% parameter to the version validator is evaluated by the composition test (four configuration versions against build 1.2.3), not proved. " + TB),
   design="DESIGN.md section 4 C18"),
 "C06": dict(
   technique="contract-based deductive verification: WP/VC generation over go/ssa of the real existence validators, SMT (z3/cvc5)",
   text=("Proof, for all Output values of any size, that ValidateParamsExist / ValidateServicesExist return nil exactly when every name in every "
         "DependsOnParams / DependsOnServices list reachable from a parameter, a service (arguments, calls, fields via AllArgs) or a decorator is in the set of declared names "
         "(names only, so todo entries count as declared). Both directions are separate obligations; AllArgs is proved sound and positionally complete."),
   note=("The custody chain from YAML text to the DependsOn* lists (resolver chain, token factories, compile steps) is under contract and tagged with this property; the validators read lists no other function has rewritten (structural obligation: no function of package output writes through a slice it received by value). Message texts are opaque. "
         "grouperror.Prefix/Join have assumed contracts (nil iff all nil). " + TB),
   design="DESIGN.md section 4 C06"),
 "C09": dict(
   technique="contract-based deductive verification: WP/VC generation over go/ssa of the real merge.go, SMT (z3/cvc5)",
   text=("Proof, for all inputs and unbounded sizes, that every function of input/merge.go and slices.Copy meets a contract transcribed from the "
         "property (later scalar wins, maps united key-wise with later value winning, non-empty later arguments replace, calls/tags/decorators appended in order), "
         "plus machine-checked lemmas over those contracts: Merge is associative up to extensional equivalence and the empty input is a left and right identity. "
         "Split invariance is the corollary (any split is a re-bracketing of the same fold). StepReadConfig.Run is proved to produce exactly the left fold of Merge over the readable, parsable files taken pattern by pattern in -i order and, within a pattern, in findFiles order (cleaned, sorted); NewBuildCmd registers -i as a string *array* flag (one pattern per occurrence, no comma splitting) and buildRunner hands the patterns to the container as one list in flag order (not sorted, not de-duplicated)."),
   note=("Build-time half only. Assumed: os.ReadFile / filepath.Glob are functions of their argument for the duration of a run, yaml.Unmarshal is a function of its bytes and target type; the HO-contract of maps.Iterate at call sites; pflag/cobra contracts. mergeFiles/mergePatterns are definitional recursions (axioms). " + TB),
   design="DESIGN.md section 4 C09"),
}

NA = {
 "C01": "Statement is about the text rendered by text/template from *.go.tpl and the Go type checker's verdict on it; no contract on a Go function of /repo can express it (DESIGN.md section 4, C01).",
 "C17": "Parity of two rendered programs is a relation between template outputs decided by a type checker; the only Go involved passes a boolean into the template data (DESIGN.md section 4, C17).",
 "C19": "Statement is about executions of the built binary on its own YAML and a byte-wise file diff; no function contract expresses it (DESIGN.md section 4, C19).",
 "C20": "Concurrency of generated code over an external runtime's locks: the technique has no concurrency reasoning and the code is not Go code of /repo (DESIGN.md section 4, C20).",
}
NOT_YET = "check not built yet (framework under construction); see DESIGN.md section 4 for the planned claim"

def main():
    props = [json.loads(l) for l in open('/verif/properties.jsonl')]
    hooks = subprocess.run(["git", "-C", "/repo", "log", "--format=%H %s"], capture_output=True, text=True).stdout.splitlines()
    src = [l.split()[0] for l in hooks if " verif:" in " " + l]
    checks, na = [], []
    for p in props:
        pid = p["id"]
        if pid in CLAIMS:
            c = CLAIMS[pid]
            checks.append({
              "property_id": pid,
              "quick_cmd": f"cd /verif && {ENV} bin/govc check {pid} --tier quick",
              "thorough_cmd": f"cd /verif && {ENV} bin/govc check {pid} --tier thorough",
              "evidence_file": f"/verif/evidence/{pid}.json",
              "replay_cmd_template": f"cd /verif && {ENV} bin/govc replay {{path}}",
              "engine": "govc",
              "level_claimed": {"category": "proof", "text": c["text"], "design_ref": c["design"]},
              "level_note": c["note"],
              "technique": c["technique"],
            })
        else:
            na.append({"property_id": pid, "reason": NA.get(pid, NOT_YET)})
    m = {
      "version": 1,
      "setup_cmd": f"cd /verif && {ENV} go build -o bin/govc ./cmd/govc",
      "hooks": {"guard": "verif",
                "enable": "contract files contracts_verif.go are comment-only and carry //go:build verif; govc loads /repo with -tags=verif",
                "baseline_off_cmd": "cd /repo && go test -json -vet=off -count=1 -timeout 25m ./...",
                "source_commits": src, "add_only": True},
      "engines": [{"name": "govc", "path": "/verif/cmd/govc", "serves_properties": sorted(CLAIMS),
                   "kind_free_text": "contract-based deductive verifier for the Go subset used by /repo: VC generation over go/ssa, contracts as //@ comments in guarded files, obligations discharged by z3 4.8.12 / z3 5.1.0 / cvc5 1.0.3"}],
      "checks": checks,
      "not_applicable": na,
      "notes": "All checks rebuild SSA from /repo's working tree on every run. Known findings: /verif/known_findings.json. Must-fail corpus: bin/govc selftest.",
    }
    json.dump(m, open('/verif/MANIFEST.json', 'w'), indent=1)
    print("claims:", sorted(CLAIMS), "n/a:", [x["property_id"] for x in na])

main()
