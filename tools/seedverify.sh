#!/bin/bash
# usage: seedverify.sh <Cxx> <mN> [srcdir]  -- confirms a seeded change in a scratch worktree of /repo HEAD
# default srcdir: /tmp/r3/<Cxx>/out/<mN>; result in /tmp/seedv/<Cxx>-<mN>.result
set -u
ID=$1; M=$2
SRC=${3:-${SEED_ROOT:-/tmp/r7}/$ID/out/$M}
WT=/tmp/seedv/$ID-$M
OUT=/tmp/seedv/$ID-$M.result
mkdir -p /tmp/seedv
rm -rf $WT; git -C /repo worktree prune
git -C /repo worktree add --detach $WT HEAD >/dev/null 2>&1 || { echo "worktree failed" > $OUT; exit 1; }
cd $WT
res() { echo "$1" >> $OUT; }
: > $OUT
PKGDIR=$(python3 -c "import json;print(json.load(open('$SRC/meta.json'))['demo_pkg_dir'])")
RUN=$(python3 -c "import json;print(json.load(open('$SRC/meta.json'))['demo_run'])")
TESTNAME=$(echo "$RUN" | grep -o '\-run [^ ]*' | awk '{print $2}' | tr -d "'\"")
if git apply --check $SRC/patch.diff 2>/dev/null; then res "applies=yes"; else res "applies=no"; cd /; git -C /repo worktree remove --force $WT; exit 0; fi
git apply $SRC/patch.diff
if git diff --name-only | grep -q '_test.go\|contracts_verif.go\|\.tpl$'; then res "touches_forbidden=yes"; fi
if go build ./... >/dev/null 2>&1; then res "builds=yes"; else res "builds=no"; fi
if go test -vet=off -count=1 ./... >/tmp/seedv/$ID-$M.tests.log 2>&1; then res "existing_tests=pass"; else res "existing_tests=FAIL"; fi
cp $SRC/zz_demo_test.go $PKGDIR/zz_demo_test.go
if go test -vet=off -count=1 -timeout 300s -run "$TESTNAME" ./$PKGDIR/ >/tmp/seedv/$ID-$M.demo_mut.log 2>&1; then res "demo_with_mutant=pass(BAD)"; else res "demo_with_mutant=fail(good)"; fi
git apply -R $SRC/patch.diff
if go test -vet=off -count=1 -timeout 300s -run "$TESTNAME" ./$PKGDIR/ >/tmp/seedv/$ID-$M.demo_orig.log 2>&1; then res "demo_without=pass(good)"; else res "demo_without=FAIL(BAD)"; fi
res "demo_cmd=go test -vet=off -count=1 -run $TESTNAME ./$PKGDIR/"
cd /
git -C /repo worktree remove --force $WT
