#!/bin/bash
# usage: harmless.sh <dir-with-patch.diff>  -- applies a behaviour-preserving change to a scratch copy of /repo's working
# tree and decides every property's obligations on it in one pass (`govc alarms`); prints one line per property that would
# raise an alarm, or "<id>: quiet".
set -u
D=$(cd "$1" && pwd); shift
N=$(basename $D)
S=/var/tmp/govc-harmless/$N
rm -rf $S; mkdir -p $S
rsync -a --exclude .git /repo/ $S/repo/
if ! (cd $S/repo && patch -p1 -s -i $D/patch.diff); then echo "$N: patch does not apply"; rm -rf $S; exit 0; fi
export GOFLAGS=-mod=mod GOPROXY=off GOSUMDB=off GOTOOLCHAIN=local
if ! (cd $S/repo && GOFLAGS= go build ./... ) >/dev/null 2>&1; then echo "$N: does not build"; rm -rf $S; exit 0; fi
GOVC_CORPUS=1 GOVC_REPO=$S/repo /verif/bin/govc alarms 2>/dev/null | grep "^ALARM\|^quiet\|contract error" | sed "s/^/$N: /" | cut -c1-400
rm -rf $S
