#!/bin/bash
# usage: harmless.sh <dir-with-patch.diff> [props...]  -- applies a behaviour-preserving change to a scratch copy of /repo's
# working tree and runs the quick check of every claimed property on it; prints one line per property that raised an alarm.
set -u
D=$1; shift
PROPS=${*:-C02 C03 C04 C05 C06 C07 C08 C09 C10 C11 C12 C13 C14 C15 C16 C18}
N=$(basename $(dirname $(dirname $D)))-$(basename $D)
S=/var/tmp/govc-harmless/$N
rm -rf $S; mkdir -p $S
rsync -a --exclude .git /repo/ $S/repo/
if ! (cd $S/repo && patch -p1 -s -i $D/patch.diff); then echo "$N: patch does not apply"; rm -rf $S; exit 0; fi
export GOFLAGS=-mod=mod GOPROXY=off GOSUMDB=off GOTOOLCHAIN=local
if ! (cd $S/repo && GOFLAGS= go build ./... ) >/dev/null 2>&1; then echo "$N: does not build"; rm -rf $S; exit 0; fi
bad=0
for p in $PROPS; do
  GOVC_CORPUS=1 GOVC_REPO=$S/repo GOVC_EVIDENCE_DIR=$S/ev GOVC_REPLAY_DIR=$S/replays /verif/bin/govc check $p --tier quick > $S/$p.log 2>&1
  e=$?
  if [ $e -ne 0 ]; then bad=1; echo "$N: ALARM $p exit=$e: $(grep -m3 'not discharged\|no longer generated\|internal error\|contract error' $S/$p.log | cut -c1-230 | tr '\n' '|')"; fi
done
[ $bad -eq 0 ] && echo "$N: quiet"
mkdir -p /var/tmp/govc-harmless-logs/$N; cp $S/*.log /var/tmp/govc-harmless-logs/$N/ 2>/dev/null
rm -rf $S
