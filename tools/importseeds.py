#!/usr/bin/env python3
"""Copies confirmed seeded changes from /tmp/r3/<id>/out/<m> (written by the independent sub-agents) into
/verif/seeded/<id>-<m>/ with the confirmation record of tools/seedverify.sh."""
import json, os, shutil, sys, re
ms = sys.argv[1:] or ["m7", "m8"]
ROOT = os.environ.get("SEED_ROOT", "/tmp/r5")
for d in sorted(os.listdir(ROOT)):
    if not os.path.isdir(f"{ROOT}/{d}/out"): continue
    pid = d
    for m in ms:
        src = f"{ROOT}/{d}/out/{m}"
        resf = f"/tmp/seedv/{pid}-{m}.result"
        if not os.path.exists(src + "/patch.diff") or not os.path.exists(resf): continue
        res = dict(l.strip().split("=", 1) for l in open(resf) if "=" in l)
        ok = res.get("applies") == "yes" and res.get("builds") == "yes" and res.get("existing_tests") == "pass" \
            and res.get("demo_with_mutant", "").startswith("fail") and res.get("demo_without", "").startswith("pass")
        if not ok:
            print("NOT CONFIRMED", pid, m, res); continue
        dst = f"/verif/seeded/{pid}-{m}"
        os.makedirs(dst, exist_ok=True)
        shutil.copy(src + "/patch.diff", dst + "/patch.diff")
        shutil.copy(src + "/zz_demo_test.go", dst + "/zz_demo_test.go")
        meta = json.load(open(src + "/meta.json"))
        patch = open(src + "/patch.diff").read()
        out = {
            "property": pid, "mutant": f"{pid}-{m}",
            "what_it_breaks": meta.get("what_it_breaks", ""), "needs_to_manifest": meta.get("needs_to_manifest", ""),
            "files_changed": meta.get("files_changed") or re.findall(r"^\+\+\+ b/(.*)$", patch, re.M),
            "demo_pkg_dir": meta.get("demo_pkg_dir"), "demo_run": meta.get("demo_run"),
            "origin": "written by an independent sub-agent (" + os.environ.get("SEED_ROUND", "fourth") + " round) that saw only the property record, a scratch worktree of /repo without the contract files, and the list of files/functions changed by the earlier rounds",
            "confirmed_by_me": {"how": "tools/seedverify.sh in a scratch worktree of /repo HEAD: git apply; go build ./...; go test -vet=off -count=1 ./...; copy demo; run demo (must fail); git apply -R; run demo (must pass)",
                                "applies": res["applies"], "builds": res["builds"], "existing_tests": res["existing_tests"],
                                "demo_with_mutant": res["demo_with_mutant"], "demo_without": res["demo_without"]},
        }
        json.dump(out, open(dst + "/meta.json", "w"), indent=1)
        print("imported", pid, m)
