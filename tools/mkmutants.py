#!/usr/bin/env python3
"""Builds the hand-written part of the must-fail corpus: each entry is (name, property, file, old, new, expected substring)."""
import subprocess, os, json, shutil, sys
M = [
 ("C02_resolveArgs_reversed", "C02", "internal/pkg/compiler/common.go", "r[i] = argExprToArg(argExpr)", "r[len(args)-1-i] = argExprToArg(argExpr)", "resolveArgs"),
 ("C02_serviceCalls_drops_immutable", "C02", "internal/pkg/compiler/step_compile_services.go", "Immutable: call.Immutable,", "Immutable: false,", "serviceCalls"),
 ("C02_argresolver_negated_supports", "C02", "internal/pkg/resolver/arg_resolver.go", "if s.Supports(i) {", "if !s.Supports(i) {", "ResolveArg"),
 ("C02_service_resolver_no_dependency", "C02", "internal/pkg/resolver/service_resolver.go", 'DependsOnServices: []string{m["service"]},', "DependsOnServices: nil,", "ServiceResolver"),
 ("C03_reference_uses_fn_regex", "C03", "internal/pkg/token/factories.go", "return ok && regexTokenRef.MatchString(expr)", "return ok && regexSimpleFn.MatchString(expr)", "FactoryReference"),
 ("C03_prepend_appends", "C03", "internal/pkg/token/strategy_factory.go", "f.strategies = append([]tokenFactoryStrategy{s}, f.strategies...)", "f.strategies = append(f.strategies, s)", "Prepend"),
 ("C03_gocode_single_token_as_value", "C03", "internal/pkg/token/token.go", "return fmt.Sprintf(consts.TplDependencyProvider, tkns[0].Code), nil", "return fmt.Sprintf(consts.TplDependencyValue, tkns[0].Code), nil", "GoCode"),
 ("C04_tags_negated_priority", "C04", "internal/pkg/compiler/step_compile_services.go", "Priority: t.Priority,", "Priority: -t.Priority,", "serviceTags"),
 ("C04_decorators_reversed", "C04", "internal/pkg/compiler/step_compile_decorators.go", "d.Decorators[j] = dec", "d.Decorators[len(i.Decorators)-1-j] = dec", "StepCompileDecorators"),
 ("C05_scopes_swapped", "C05", "internal/pkg/compiler/step_compile_services.go", "case input.ScopeShared:\n\t\t\to.Services[j].Scope = output.ScopeShared", "case input.ScopeShared:\n\t\t\to.Services[j].Scope = output.ScopeContextual", "processScopes"),
 ("C05_checks_non_shared_dependants", "C05", "internal/pkg/output/validate_services_scopes.go", "if s2.Scope == ScopeContextual {", "if s2.Scope == ScopeNonShared {", "ValidateServicesScopes"),
 ("C06_allargs_skips_fields", "C06", "internal/pkg/output/output.go", "\tfor _, f := range s.Fields {\n\t\tres = append(res, f.Value)\n\t}\n", "", "AllArgs"),
 ("C06_existing_keyed_by_code", "C06", "internal/pkg/output/validate_params_exist.go", "existing[p.Name] = struct{}{}", "existing[p.Code] = struct{}{}", "ValidateParamsExist"),
 ("C07_tags_from_params", "C07", "internal/pkg/output/output_graph.go", "g.ServiceDependsOnTags(s.Name, dependantTags)", "g.ServiceDependsOnTags(s.Name, dependantParams)", "BuildDependencyGraph"),
 ("C07_no_param_edges", "C07", "internal/pkg/output/output_graph.go", "\t\t\tg.ParamDependsOnParam(p.Name, p2)\n", "\t\t\t_ = p2\n", "BuildDependencyGraph"),
 ("C08_imports_sorted_by_alias", "C08", "internal/pkg/imports/imports.go", "return imps[i].Path < imps[j].Path", "return imps[i].Alias < imps[j].Alias", "Imports"),
 ("C09_mergePtr_prefers_earlier", "C09", "internal/pkg/input/merge.go", "\tif b != nil {\n\t\treturn newPtr(b)\n\t}\n\treturn newPtr(a)", "\tif a != nil {\n\t\treturn newPtr(a)\n\t}\n\treturn newPtr(b)", "mergePtr"),
 ("C09_calls_prepended", "C09", "internal/pkg/input/merge.go", "Calls:       append(slices.Copy(s1.Calls), s2.Calls...),", "Calls:       append(slices.Copy(s2.Calls), s1.Calls...),", "mergeService"),
 ("C10_runner_continues_after_error", "C10", "internal/cmd/runner/runner.go", "\t\tif err := sr.Run(&i, &o); err != nil {\n\t\t\treturn err\n\t\t}", "\t\t_ = sr.Run(&i, &o)", "Runner"),
 ("C10_generator_swallows_write_error", "C10", "internal/cmd/runner/step_code_generator.go", "\tif err := os.WriteFile(of, []byte(tpl), 0644); err != nil {\n\t\treturn err\n\t}", "\t_ = os.WriteFile(of, []byte(tpl), 0644)", "StepCodeGenerator"),
 ("C11_gotoken_leading_underscore", "C11", "internal/pkg/regex/consts.go", "GoToken    = `[A-Za-z][A-Za-z0-9_]*`", "GoToken    = `[A-Za-z_][A-Za-z0-9_]*`", "lang_"),
 ("C11_todo_test_inverted", "C11", "internal/pkg/input/validators_services.go", "if !ptr.Dereference(s.Todo, DefaultServiceTodo) {", "if ptr.Dereference(s.Todo, DefaultServiceTodo) {", "ValidateServices"),
 ("C11_tags_validator_removed", "C11", "internal/pkg/input/validators_services.go", "\t\tValidateServiceFields,\n\t\tValidateServiceTags,\n", "\t\tValidateServiceFields,\n", "ValidateServices"),
 ("C12_call_unmarshal_no_empty_guard", "C12", "internal/pkg/input/input_call.go", "if len(z) == 0 || len(z) > 3 {", "if len(z) > 3 {", "UnmarshalYAML"),
 ("C12_endindent_without_indent", "C12", "internal/cmd/runner/step_verbose_switchable.go", "\t\ts.indenter.Indent(\"  \")\n", "", "StepVerboseSwitchable"),
 ("C13_getter_ignores_default", "C13", "internal/pkg/compiler/step_compile_services.go", "ptr.Dereference(svc.MustGetter, ptr.Dereference(m.DefaultMustGetter, defaultMetaMustGetter))", "ptr.Dereference(svc.MustGetter, defaultMetaMustGetter)", "getter"),
 ("C13_suffix_context", "C13", "internal/pkg/input/validators_services.go", 'strings.HasSuffix(*s.Getter, "InContext")', 'strings.HasSuffix(*s.Getter, "InContex")', "ValidateServiceGetter"),
 ("C14_alias_counter_not_incremented", "C14", "internal/pkg/imports/imports.go", "\ti.counter++\n", "", "Alias"),
 ("C14_register_overwrites", "C14", "internal/pkg/imports/imports.go", "\tif _, ok := i.prefixes[alias]; ok {\n\t\treturn fmt.Errorf(\"prefix is already registered: %+q\", alias)\n\t}\n", "", "RegisterPrefixAlias"),
 ("C15_todo_services_fully_validated", "C15", "internal/pkg/input/validators_services.go", "if !ptr.Dereference(s.Todo, DefaultServiceTodo) {", "if !ptr.Dereference(s.Todo, DefaultServiceTodo) || true {", "ValidateServices"),
 ("C15_todo_bound_to_getenv", "C15", "internal/cmd/runner/step_default_input.go", "consts.FuncTodo:   consts.BuiltInParamTodo,", "consts.FuncTodo:   consts.BuiltInGetEnv,", "StepDefaultInput"),
 ("C16_active_flags_swapped", "C16", "internal/cmd/runner_builder.go", "c.MustGetStepValidateParamsExist().Active(p.paramsExistActive)\n\tc.MustGetStepValidateServicesExist().Active(p.servicesExistActive)", "c.MustGetStepValidateParamsExist().Active(p.servicesExistActive)\n\tc.MustGetStepValidateServicesExist().Active(p.paramsExistActive)", ""),
 ("C16_inactive_runs_parent", "C16", "internal/cmd/runner/step_verbose_switchable.go", "\t\ts.printer.PrintAlignedLn(n+\" END\", \"ignored\")\n\t\treturn nil", "\t\ts.printer.PrintAlignedLn(n+\" END\", \"ignored\")\n\t\t_ = s.parent.Run(i, o)\n\t\treturn nil", "StepVerboseSwitchable"),
 ("C16_amalgamated_stops_early", "C16", "internal/cmd/runner/step_amalgamated.go", "\t\terrs = append(errs, st.Run(i, o))", "\t\tif err := st.Run(i, o); err != nil {\n\t\t\treturn err\n\t\t}", "StepAmalgamated"),
 ("C18_compare_inverted", "C18", "internal/pkg/input/validators_version.go", "if semver.Compare(curr, given) < 0 {", "if semver.Compare(curr, given) > 0 {", "ValidateVersion"),
 ("C18_major_zero_like_others", "C18", "internal/pkg/input/validators_version.go", 'if semver.Major(v.version) == "v0" {', 'if semver.Major(v.version) == "v00" {', "ValidateVersion"),
 ("C03_chunker_drops_delimiter", "C03", "internal/pkg/token/chunker.go", "r = append(r, buff+Delimiter)", "r = append(r, buff)", "Chunks"),
 ("C03_chunker_keeps_open_token", "C03", "internal/pkg/token/chunker.go", "\tif opened {\n\t\treturn nil, fmt.Errorf(\"not closed token: %+q\", buff)\n\t}\n", "\tif opened && buff == \"\" {\n\t\treturn nil, fmt.Errorf(\"not closed token: %+q\", buff)\n\t}\n", "Chunks"),
 ("C03_toexpr_keeps_last_delimiter", "C03", "internal/pkg/token/common.go", "return string(runes[1 : len(runes)-1]), true", "return string(runes[1:]), true", "toExpr"),
 ("C09_readconfig_merge_swapped", "C09", "internal/cmd/runner/step_read_config.go", "*i = input.Merge(*i, tmp)", "*i = input.Merge(tmp, *i)", "StepReadConfig"),
 ("C16_flag_switches_wrong_rule", "C16", "internal/cmd/cmd_build.go", "paramsExistActive:   !ignoreMissingParams,", "paramsExistActive:   !ignoreMissingServices,", "NewBuildCmd"),
 ("C10_quiet_errors_to_stdout", "C10", "internal/cmd/cmd_build.go", "errWriter := out", "errWriter := cmd.OutOrStdout()", "NewBuildCmd"),
 ("C14_functions_before_imports", "C14", "internal/pkg/compiler/step_compile_meta.go", "\terrs = append(errs, s.handleImports(i.Meta.Imports))\n\ts.handleFunctions(i.Meta.Functions)\n", "\ts.handleFunctions(i.Meta.Functions)\n\terrs = append(errs, s.handleImports(i.Meta.Imports))\n", "aliases_registered_before_functions"),
 ("C02_value_pointer_dropped", "C02", "internal/pkg/syntax/helpers.go", "return m[\"ptr\"] + strings.Join(append(parts, m[\"value\"]), \".\")", "return strings.Join(append(parts, m[\"value\"]), \".\")", "CompileServiceValue"),
 ("C16_flag_variables_swapped", "C16", "internal/cmd/cmd_build.go", 'cmd.Flags().BoolVarP(&ignoreMissingParams, "ignore-missing-params", "", false, "ignore missing parameters")\n\tcmd.Flags().BoolVarP(&ignoreMissingServices, "ignore-missing-services", "", false, "ignore missing services")', 'cmd.Flags().BoolVarP(&ignoreMissingServices, "ignore-missing-params", "", false, "ignore missing parameters")\n\tcmd.Flags().BoolVarP(&ignoreMissingParams, "ignore-missing-services", "", false, "ignore missing services")', "each_flag_sets_its_own_variable"),
 ("C11_validate_params_stops_at_first_error", "C11", "internal/pkg/input/validators_params.go", "\t\t\terrs = append(errs, newErrUnsupportedType(fmt.Sprintf(\"%+q\", n), v))\n", "\t\t\terrs = append(errs, newErrUnsupportedType(fmt.Sprintf(\"%+q\", n), v))\n\t\t\tbreak\n", "no-early-exit"),
 ("C18_main_version_and_buildinfo_swapped", "C18", "main.go", "\t\t\tbv.GitVersion,\n\t\t\tbuildInfo(bv),\n", "\t\t\tbuildInfo(bv),\n\t\t\tbv.GitVersion,\n", "main"),
 ("C10_exit_status_ignores_error", "C10", "main.go", "\tif err := rootCmd.Execute(); err != nil {\n\t\tos.Exit(1)\n\t}\n", "\t_ = rootCmd.Execute()\n", "main"),
 ("C16_switchable_inactive_by_default", "C16", "internal/cmd/runner/step_verbose_switchable.go", "\t\tactive:   true,\n", "\t\tactive:   false,\n", "NewStepVerboseSwitchable"),
 ("C10_code_generator_built_without_builder", "C10", "internal/cmd/runner/step_code_generator.go", "\t\tbuilder:    builder,\n", "", "NewStepCodeGenerator"),
 ("C02_compile_services_built_without_resolver", "C02", "internal/pkg/compiler/step_compile_services.go", "return &StepCompileServices{aliaser: a, argResolver: ar}", "return &StepCompileServices{aliaser: a}", "NewStepCompileServices"),
 ("C14_head_rendered_before_body", "C14", "internal/pkg/template/template.go", "\tif body, err = tplBody.exec(); err != nil {\n\t\treturn \"\", err\n\t}\n\n\t// we have to execute that template as the last one\n\t// because the previous one can add imports,\n\t// and we need to print all of them\n\tif head, err = tplHead.exec(); err != nil {", "\tif head, err = tplHead.exec(); err != nil {\n\t\treturn \"\", err\n\t}\n\n\tif body, err = tplBody.exec(); err != nil {", "Build"),
 ("C04_builder_renders_a_copy_without_decorators", "C04", "internal/pkg/template/template.go", "\t\tOutput:           o,\n", "\t\tOutput:           output.Output{Meta: o.Meta, Params: o.Params, Services: o.Services},\n", "Build"),
 ("C10_error_list_capped", "C10", "internal/cmd/cmd_build.go", "\t\t\tfor i, err := range grouperror.Collection(err) {\n", "\t\t\tfor i, err := range grouperror.Collection(err) {\n\t\t\t\tif i >= 20 {\n\t\t\t\t\tbreak\n\t\t\t\t}\n", "one_numbered_line"),
 ("C11_call_null_elements_accepted", "C11", "internal/pkg/input/input_call.go", "\tif len(z) >= 3 {\n\t\tif i, ok := z[2].(bool); !ok {", "\tif len(z) >= 3 && z[2] != nil {\n\t\tif i, ok := z[2].(bool); !ok {", "UnmarshalYAML"),
 ("C18_version_number_accepted", "C18", "internal/pkg/input/input_version.go", "\tvs, ok := val.(string)\n\tif !ok {\n\t\treturn errors.New(\"it must be a string\")\n\t}\n", "\tvs, ok := val.(string)\n\tif !ok {\n\t\tvs = \"0.0.0\"\n\t}\n", "UnmarshalYAML"),
 ("C06_graph_filters_dependencies_in_place", "C06", "internal/pkg/output/output_graph.go", "\tfor _, p := range o.Params {\n", "\tfor _, p := range o.Params {\n\t\tkept := p.DependsOn[:0]\n\t\tfor _, d := range p.DependsOn {\n\t\t\tif d != p.Name {\n\t\t\t\tkept = append(kept, d)\n\t\t\t}\n\t\t}\n\t\t_ = kept\n", "received-by-value"),
 ("C14_imports_not_pruned", "C14", "internal/pkg/template/code_formatter.go", "\tr, err = imports.Process(\"\", r, nil)\n", "\tif len(r) > 1<<20 {\n\t\tr, err = imports.Process(\"\", r, nil)\n\t}\n", "Format"),
 ("C08_output_path_made_absolute", "C08", "internal/cmd/runner/step_code_generator.go", None, None, ""),
]
out = "/verif/selftest/mutants"
scratch = "/var/tmp/govc-mkmut"
bad = 0
for name, prop, f, old, new, expect in M:
    if old is None:
        continue
    shutil.rmtree(scratch, ignore_errors=True)
    os.makedirs(scratch + "/a/" + os.path.dirname(f)); os.makedirs(scratch + "/b/" + os.path.dirname(f))
    src = open("/repo/" + f).read()
    if old not in src:
        print("NOT FOUND", name); bad += 1; continue
    open(scratch + "/a/" + f, "w").write(src)
    open(scratch + "/b/" + f, "w").write(src.replace(old, new, 1))
    d = subprocess.run(["diff", "-u", "a/" + f, "b/" + f], cwd=scratch, capture_output=True, text=True).stdout
    open(f"{out}/{name}.patch", "w").write(d)
    json.dump({"name": name, "patch": name + ".patch", "property": prop, "expect_obligation_substrings": [expect] if expect else [],
               "note": "hand-written must-fail mutant (compiles; checked with go build in the selftest run of its author)"}, open(f"{out}/{name}.json", "w"), indent=1)
shutil.rmtree(scratch, ignore_errors=True)
print("written", len(M) - bad, "mutants;", bad, "not found")
