#!/usr/bin/env python3
"""Rewrites section 10 of DESIGN.md (between the SEEDED-TABLE markers) from seeded/RESULTS.json and the meta files."""
import json, os, re
res = json.load(open("/verif/seeded/RESULTS.json"))
rows = []
caught = 0
for r in sorted(res, key=lambda r: r["mutant"]):
    m = json.load(open(f"/verif/seeded/{r['mutant']}/meta.json"))
    files = ", ".join(os.path.basename(f) for f in m.get("files_changed", []))
    what = re.sub(r"\s+", " ", m.get("what_it_breaks", "")).strip()
    if len(what) > 230:
        what = what[:227].rsplit(" ", 1)[0] + " …"
    what = what.replace("|", "\\|")
    if r["caught"]:
        caught += 1
        v = r["violations"][0] if r["violations"] else ""
        mo = re.search(r"not discharged: (\S+)", v)
        ob = mo.group(1) if mo else ("locked obligation no longer generated" if "no longer generated" in v else "bounded companion / conformance")
        ob = re.sub(r"^internal/(pkg|cmd)/", "", ob)
        st = "model" if "status=failed" in v else ("fail-closed" if "left the" in v else "no proof")
        rows.append(f"| {r['mutant']} | {files} | {what} | **caught** ({st}) | `{ob}` |")
    else:
        why = "patch does not apply" if r.get("exit") == -2 else "missed"
        rows.append(f"| {r['mutant']} | {files} | {what} | **{why}** | – |")
head = (f"{len(res)} changes written by independent sub-agents (eight rounds; each agent saw only the property record and a scratch\n"
        "worktree of /repo, from the second round on without the contract files and with the list of functions already used;\n"
        "m1-m2 first round, m3-m4 second, m5-m6 third, m7-m8 fourth, m9-m10 fifth, m11-m12 sixth, m13-m14 seventh, m15 eighth - one change per property, written under a 12-minute limit),\n"
        "each confirmed by me (builds, all 235 tests pass, its demo test fails with the change and passes without).\n"
        f"`bin/govc seeded` applies each to a scratch copy and runs the owning property's quick check: **{caught} of {len(res)} caught**.\n"
        "\"model\": a solver produced a counterexample for the named obligation; \"no proof\": the obligation that discharges on the\n"
        "unchanged tree is no longer proved (timeout/unknown), reported with `no-failing-input-found`; \"fail-closed\": a contract\n"
        "clause no longer fits the changed code.\n\n"
        "| change | file(s) | what it breaks | verdict | first reported obligation |\n|---|---|---|---|---|\n")
table = head + "\n".join(rows) + "\n"
p = "/verif/DESIGN.md"
s = open(p).read()
b, e = "<!-- SEEDED-TABLE-BEGIN -->", "<!-- SEEDED-TABLE-END -->"
if b not in s:
    s = s.replace("SEEDED_TABLE_PLACEHOLDER", b + "\nSEEDED_TABLE_PLACEHOLDER\n" + e)
i, j = s.index(b) + len(b), s.index(e)
s = s[:i] + "\n" + table + s[j:]
open(p, "w").write(s)
print(f"{caught}/{len(res)} caught")
