#!/bin/bash
# usage: tryseed.sh <seed-dir-name|patchfile> <govc args...>   -- runs govc on a scratch copy of /repo's working tree with the change applied
set -e
S=$1; shift
P=/verif/seeded/$S/patch.diff; [ -f "$P" ] || P=/verif/selftest/mutants/$S.patch; [ -f "$P" ] || P=$S
D=/var/tmp/govc-try/$(basename $S)
rm -rf $D; mkdir -p $D
rsync -a --exclude .git /repo/ $D/repo/
(cd $D/repo && patch -p1 -s -i $P)
export GOFLAGS=-mod=mod GOPROXY=off GOSUMDB=off GOTOOLCHAIN=local
GOVC_CORPUS=1 GOVC_REPO=$D/repo GOVC_EVIDENCE_DIR=$D/ev GOVC_REPLAY_DIR=$D/replays /verif/bin/govc "$@" || true
rm -rf $D
