package spec

// SplitLastIteration rewrites quantifiers that range up to the loop position `$i` so that the element added by
// the last iteration stands on its own:
//
//	forall x, ys :: A && x < $i ==> B   becomes   (forall x, ys :: A && x < $i-1 ==> B) && (forall ys :: A[x:=$i-1] ==> B[x:=$i-1])
//	exists x, ys :: A && x < $i && B    becomes   (exists x, ys :: A && x < $i-1 && B) || (exists ys :: (A && B)[x:=$i-1])
//
// Both are equivalences over the integers (x < n  <=>  x < n-1 or x = n-1), so the rewritten formula may replace
// the original anywhere. It is applied to the goal of "invariant preserved" obligations only: the solver then meets
// the new element as a ground term instead of having to split the skolemised bound variable itself.
func SplitLastIteration(e Expr) Expr {
	switch x := e.(type) {
	case *Unary:
		return &Unary{x.base, x.Op, SplitLastIteration(x.X)}
	case *Binary:
		return &Binary{x.base, x.Op, SplitLastIteration(x.L), SplitLastIteration(x.R)}
	case *Cond:
		return &Cond{x.base, SplitLastIteration(x.C), SplitLastIteration(x.T), SplitLastIteration(x.E)}
	case *Let:
		return &Let{x.base, x.Name, x.Val, SplitLastIteration(x.Body)}
	case *Quant:
		q := &Quant{x.base, x.Forall, x.Vars, SplitLastIteration(x.Body), x.Pats}
		if len(q.Pats) > 0 {
			return q
		}
		if q.Forall {
			imp, ok := q.Body.(*Binary)
			if !ok || imp.Op != "==>" {
				return q
			}
			cs := conjuncts(imp.L)
			for k, c := range cs {
				v, ok := boundedByPos(c, q.Vars)
				if !ok {
					continue
				}
				last := &Binary{q.base, "-", &Ident{q.base, "$i"}, &IntLit{q.base, "1"}}
				// all but the last
				cs1 := append([]Expr{}, cs...)
				cs1[k] = &Binary{q.base, "<", &Ident{q.base, v}, last}
				first := &Quant{q.base, true, q.Vars, &Binary{q.base, "==>", conj(q.base, cs1), imp.R}, nil}
				// the last one
				cs2 := append(append([]Expr{}, cs[:k]...), cs[k+1:]...)
				var body Expr = imp.R
				if len(cs2) > 0 {
					body = &Binary{q.base, "==>", conj(q.base, cs2), imp.R}
				}
				body = Subst(body, v, last)
				var rest []Var
				for _, vv := range q.Vars {
					if vv.Name != v {
						rest = append(rest, vv)
					}
				}
				if len(rest) > 0 {
					body = &Quant{q.base, true, rest, body, nil}
				}
				return &Binary{q.base, "&&", first, body}
			}
			return q
		}
		cs := conjuncts(q.Body)
		for k, c := range cs {
			v, ok := boundedByPos(c, q.Vars)
			if !ok {
				continue
			}
			last := &Binary{q.base, "-", &Ident{q.base, "$i"}, &IntLit{q.base, "1"}}
			cs1 := append([]Expr{}, cs...)
			cs1[k] = &Binary{q.base, "<", &Ident{q.base, v}, last}
			first := &Quant{q.base, false, q.Vars, conj(q.base, cs1), nil}
			cs2 := append(append([]Expr{}, cs[:k]...), cs[k+1:]...)
			var body Expr = &BoolLit{q.base, true}
			if len(cs2) > 0 {
				body = conj(q.base, cs2)
			}
			body = Subst(body, v, last)
			var rest []Var
			for _, vv := range q.Vars {
				if vv.Name != v {
					rest = append(rest, vv)
				}
			}
			if len(rest) > 0 {
				body = &Quant{q.base, false, rest, body, nil}
			}
			return &Binary{q.base, "||", first, body}
		}
		return q
	}
	return e
}

// boundedByPos recognises `v < $i` for an int-typed bound variable v.
func boundedByPos(c Expr, vars []Var) (string, bool) {
	b, ok := c.(*Binary)
	if !ok || b.Op != "<" {
		return "", false
	}
	l, ok1 := b.L.(*Ident)
	r, ok2 := b.R.(*Ident)
	if !ok1 || !ok2 || r.Name != "$i" {
		return "", false
	}
	for _, v := range vars {
		if v.Name == l.Name && v.Type.Kind == "name" && v.Type.Name == "int" {
			return v.Name, true
		}
	}
	return "", false
}

func conjuncts(e Expr) []Expr {
	if b, ok := e.(*Binary); ok && b.Op == "&&" {
		return append(conjuncts(b.L), conjuncts(b.R)...)
	}
	return []Expr{e}
}

func conj(b base, cs []Expr) Expr {
	out := cs[0]
	for _, c := range cs[1:] {
		out = &Binary{b, "&&", out, c}
	}
	return out
}

// Subst replaces the free occurrences of the variable name by the expression with (which must not mention
// variables bound inside e).
func Subst(e Expr, name string, with Expr) Expr {
	switch x := e.(type) {
	case *Ident:
		if x.Name == name {
			return with
		}
		return x
	case *Unary:
		return &Unary{x.base, x.Op, Subst(x.X, name, with)}
	case *Binary:
		return &Binary{x.base, x.Op, Subst(x.L, name, with), Subst(x.R, name, with)}
	case *Cond:
		return &Cond{x.base, Subst(x.C, name, with), Subst(x.T, name, with), Subst(x.E, name, with)}
	case *Select:
		return &Select{x.base, Subst(x.X, name, with), x.Name}
	case *Index:
		return &Index{x.base, Subst(x.X, name, with), Subst(x.I, name, with)}
	case *SliceE:
		s := &SliceE{x.base, Subst(x.X, name, with), nil, nil}
		if x.Lo != nil {
			s.Lo = Subst(x.Lo, name, with)
		}
		if x.Hi != nil {
			s.Hi = Subst(x.Hi, name, with)
		}
		return s
	case *Call:
		c := &Call{x.base, x.Fun, nil}
		if sel, ok := x.Fun.(*Select); ok {
			// method call on an expression: the receiver may mention the variable
			c.Fun = &Select{sel.base, Subst(sel.X, name, with), sel.Name}
		}
		for _, a := range x.Args {
			c.Args = append(c.Args, Subst(a, name, with))
		}
		return c
	case *Quant:
		for _, v := range x.Vars {
			if v.Name == name {
				return x
			}
		}
		q := &Quant{x.base, x.Forall, x.Vars, Subst(x.Body, name, with), nil}
		for _, p := range x.Pats {
			var np []Expr
			for _, t := range p {
				np = append(np, Subst(t, name, with))
			}
			q.Pats = append(q.Pats, np)
		}
		return q
	case *Let:
		l := &Let{x.base, x.Name, Subst(x.Val, name, with), x.Body}
		if x.Name != name {
			l.Body = Subst(x.Body, name, with)
		}
		return l
	case *Old:
		return &Old{x.base, Subst(x.X, name, with)}
	}
	return e
}
