// Package spec implements the contract language of govc: Gobra-style
// `//@` comment clauses attached to functions, loops and closures of /repo.
package spec

import (
	"fmt"
	"strings"
)

// Expr is a contract expression.
type Expr interface {
	String() string
	Pos() Position
}

type Position struct {
	File string
	Line int
}

func (p Position) String() string { return fmt.Sprintf("%s:%d", p.File, p.Line) }

type base struct{ P Position }

func (b base) Pos() Position { return b.P }

type (
	Ident struct {
		base
		Name string
	}
	IntLit struct {
		base
		Val string
	}
	StrLit struct {
		base
		Val string // decoded
	}
	BoolLit struct {
		base
		Val bool
	}
	NilLit struct{ base }
	Unary  struct {
		base
		Op string // ! - *
		X  Expr
	}
	Binary struct {
		base
		Op   string
		L, R Expr
	}
	Cond struct {
		base
		C, T, E Expr
	}
	Select struct {
		base
		X    Expr
		Name string
	}
	Index struct {
		base
		X, I Expr
	}
	SliceE struct {
		base
		X, Lo, Hi Expr // Lo/Hi may be nil
	}
	Call struct {
		base
		Fun  Expr
		Args []Expr
	}
	Quant struct {
		base
		Forall bool
		Vars   []Var
		Body   Expr
		Pats   [][]Expr // optional triggers
	}
	Let struct {
		base
		Name string
		Val  Expr
		Body Expr
	}
	Old struct {
		base
		X Expr
	}
)

type Var struct {
	Name string
	Type TypeExpr
}

// TypeExpr is a syntactic type: int, string, bool, []T, map[K]V, *T, pkg.Name, Name.
type TypeExpr struct {
	Kind string // "name", "slice", "map", "ptr"
	Name string // for "name": possibly qualified pkg.Name
	Elem *TypeExpr
	Key  *TypeExpr
}

func (t TypeExpr) String() string {
	switch t.Kind {
	case "slice":
		return "[]" + t.Elem.String()
	case "map":
		return "map[" + t.Key.String() + "]" + t.Elem.String()
	case "ptr":
		return "*" + t.Elem.String()
	}
	return t.Name
}

func (e *Ident) String() string   { return e.Name }
func (e *IntLit) String() string  { return e.Val }
func (e *StrLit) String() string  { return fmt.Sprintf("%q", e.Val) }
func (e *BoolLit) String() string { return fmt.Sprint(e.Val) }
func (e *NilLit) String() string  { return "nil" }
func (e *Unary) String() string   { return e.Op + e.X.String() }
func (e *Binary) String() string  { return "(" + e.L.String() + " " + e.Op + " " + e.R.String() + ")" }
func (e *Cond) String() string {
	return "(" + e.C.String() + " ? " + e.T.String() + " : " + e.E.String() + ")"
}
func (e *Select) String() string { return e.X.String() + "." + e.Name }
func (e *Index) String() string  { return e.X.String() + "[" + e.I.String() + "]" }
func (e *SliceE) String() string {
	lo, hi := "", ""
	if e.Lo != nil {
		lo = e.Lo.String()
	}
	if e.Hi != nil {
		hi = e.Hi.String()
	}
	return e.X.String() + "[" + lo + ":" + hi + "]"
}
func (e *Call) String() string {
	var a []string
	for _, x := range e.Args {
		a = append(a, x.String())
	}
	return e.Fun.String() + "(" + strings.Join(a, ", ") + ")"
}
func (e *Quant) String() string {
	q := "exists"
	if e.Forall {
		q = "forall"
	}
	var vs []string
	for _, v := range e.Vars {
		vs = append(vs, v.Name+" "+v.Type.String())
	}
	return "(" + q + " " + strings.Join(vs, ", ") + " :: " + e.Body.String() + ")"
}
func (e *Let) String() string {
	return "(let " + e.Name + " = " + e.Val.String() + " in " + e.Body.String() + ")"
}
func (e *Old) String() string { return "old(" + e.X.String() + ")" }

// Clause is one requires/ensures/invariant/... line.
type Clause struct {
	Kind  string // requires ensures invariant decreases modifies assume-free kinds only
	Label string
	Props []string
	Group string // proof group: obligations of a group see only ungrouped facts and facts of their own group
	Local bool   // `ensures_here`: proved at the function's exit like an ensures clause, but it speaks about the function's own variables, so callers do not get it
	Expr  Expr
	Raw   string
	Pos   Position
}

// LoopSpec holds the clauses of `loop k`.
type LoopSpec struct {
	Ordinal    int
	Invariants []*Clause
	Decreases  *Clause
	Unordered  []string
	Pos        Position
}

// FuncSpec is the contract of one function / closure / interface method / external.
type FuncSpec struct {
	Key           string // e.g. "mergePtr", "(*imports).Alias", "ValidateServicesScopes$1", "strings.HasPrefix"
	Kind          string // "func", "closure", "interface", "extern"
	Pkg           string // package path the contract file belongs to ("" for assumed specs)
	Props         []string
	Pure          bool
	Effect        bool
	Trusted       bool // contract is assumed, body not verified (reason mandatory)
	TrustWhy      string
	Requires      []*Clause
	Ensures       []*Clause
	Modifies      []Expr
	Loops         map[int]*LoopSpec
	Params        []Var // for extern/interface specs that name their parameters
	Results       []Var
	Pos           Position
	NoBody        bool // extern / interface
	Inline        bool // callers inline the body instead of using a contract
	Witnesses     []string
	Deterministic bool     // govc proves that the postconditions admit at most one result per input
	ReportsAll    bool     // structural obligation: no loop of the function is left early (break/return inside the body)
	Uses          []string // lemmas whose (universally quantified) statements are assumed in this function's proofs
}

// SpecFunc is `spec name(params) type = expr` (a defined pure function) or,
// without body, an uninterpreted function.
type SpecFunc struct {
	Name   string
	Pkg    string
	Params []Var
	Result TypeExpr
	Body   Expr // nil => uninterpreted
	Pos    Position
}

// Axiom is a named, assumed formula over spec functions.
type Axiom struct {
	Name string
	Pkg  string
	Expr Expr
	Pos  Position
}

// Lemma is a formula to be proved from axioms/spec definitions and the
// contracts (ensures) of the functions it mentions.
type Lemma struct {
	Uses      []string // names of lemmas whose statements are assumed here (each is proved on its own)
	Induction string   // name of an int variable: the lemma is proved by natural induction on it (for values >= 0)
	Name      string
	Pkg       string
	Props     []string
	Vars      []Var
	Hyps      []*Clause
	Concl     []*Clause
	Pos       Position
}

// SortDecl declares a spec-level datatype: `sort Node = svc(n string) | par(n string)`.
type SortDecl struct {
	Name  string
	Pkg   string
	Ctors []Ctor
	Pos   Position
}

type Ctor struct {
	Name   string
	Fields []Var
}

// File is the parsed content of one contract file.
// Global is a package-level invariant over global variables: proved at the end of the
// package initialiser (or assumed, with a reason) and assumed on entry to every function of the package.
type Global struct {
	Clause  *Clause
	Pkg     string
	Assumed bool
	Why     string
}

// Ghost is a specification-only global variable (e.g. the edge relation of the dependency graph being built).
type Ghost struct {
	Name string
	Type TypeExpr
	Pos  Position
}

type File struct {
	Ghosts  []*Ghost
	Globals []*Global
	Pkg     string
	Path    string
	Funcs   []*FuncSpec
	Specs   []*SpecFunc
	Axioms  []*Axiom
	Lemmas  []*Lemma
	Sorts   []*SortDecl
}
