package spec

import (
	"fmt"
	"strconv"
	"strings"
	"unicode"
)

// ---------------------------------------------------------------- lexer

type tok struct {
	kind string // id int str op eof
	text string
}

type lexer struct {
	src  []rune
	pos  int
	toks []tok
}

var ops = []string{"<==>", "==>", "::", "==", "!=", "<=", ">=", "&&", "||", "(", ")", "[", "]", "{", "}", ",", ".", ":", "?", "!", "-", "+", "*", "/", "%", "<", ">", "=", "|", "&", "#"}

func lex(s string) ([]tok, error) {
	l := &lexer{src: []rune(s)}
	for {
		for l.pos < len(l.src) && unicode.IsSpace(l.src[l.pos]) {
			l.pos++
		}
		if l.pos >= len(l.src) {
			break
		}
		c := l.src[l.pos]
		switch {
		case c == '/' && l.pos+1 < len(l.src) && l.src[l.pos+1] == '/':
			// trailing comment inside a clause: skip to end of line
			for l.pos < len(l.src) && l.src[l.pos] != '\n' {
				l.pos++
			}
		case unicode.IsLetter(c) || c == '_' || c == '$':
			st := l.pos
			l.pos++
			for l.pos < len(l.src) && (unicode.IsLetter(l.src[l.pos]) || unicode.IsDigit(l.src[l.pos]) || l.src[l.pos] == '_' || l.src[l.pos] == '$') {
				l.pos++
			}
			l.toks = append(l.toks, tok{"id", string(l.src[st:l.pos])})
		case unicode.IsDigit(c):
			st := l.pos
			for l.pos < len(l.src) && unicode.IsDigit(l.src[l.pos]) {
				l.pos++
			}
			l.toks = append(l.toks, tok{"int", string(l.src[st:l.pos])})
		case c == '"':
			st := l.pos
			l.pos++
			for l.pos < len(l.src) && l.src[l.pos] != '"' {
				if l.src[l.pos] == '\\' {
					l.pos++
				}
				l.pos++
			}
			if l.pos >= len(l.src) {
				return nil, fmt.Errorf("unterminated string")
			}
			l.pos++
			v, err := strconv.Unquote(string(l.src[st:l.pos]))
			if err != nil {
				return nil, fmt.Errorf("bad string %s: %v", string(l.src[st:l.pos]), err)
			}
			l.toks = append(l.toks, tok{"str", v})
		case c == '`':
			st := l.pos + 1
			l.pos++
			for l.pos < len(l.src) && l.src[l.pos] != '`' {
				l.pos++
			}
			if l.pos >= len(l.src) {
				return nil, fmt.Errorf("unterminated raw string")
			}
			l.toks = append(l.toks, tok{"str", string(l.src[st:l.pos])})
			l.pos++
		default:
			matched := false
			for _, o := range ops {
				if strings.HasPrefix(string(l.src[l.pos:min(l.pos+4, len(l.src))]), o) {
					l.toks = append(l.toks, tok{"op", o})
					l.pos += len([]rune(o))
					matched = true
					break
				}
			}
			if !matched {
				return nil, fmt.Errorf("unexpected character %q", c)
			}
		}
	}
	l.toks = append(l.toks, tok{"eof", ""})
	return l.toks, nil
}

func min(a, b int) int {
	if a < b {
		return a
	}
	return b
}

// ---------------------------------------------------------------- expression parser

type parser struct {
	toks []tok
	p    int
	pos  Position
}

func (p *parser) peek() tok { return p.toks[p.p] }
func (p *parser) next() tok { t := p.toks[p.p]; p.p++; return t }
func (p *parser) isOp(o string) bool {
	t := p.peek()
	return t.kind == "op" && t.text == o
}
func (p *parser) isID(s string) bool {
	t := p.peek()
	return t.kind == "id" && t.text == s
}
func (p *parser) accept(o string) bool {
	if p.isOp(o) {
		p.p++
		return true
	}
	return false
}
func (p *parser) expect(o string) error {
	if !p.accept(o) {
		return fmt.Errorf("%s: expected %q, found %q", p.pos, o, p.peek().text)
	}
	return nil
}
func (p *parser) b() base { return base{p.pos} }

// precedence climbing: <==>  ==>  ?:  ||  &&  cmp/in  + -  * / %  unary  postfix
func (p *parser) expr() (Expr, error) { return p.iff() }

func (p *parser) iff() (Expr, error) {
	l, err := p.implies()
	if err != nil {
		return nil, err
	}
	for p.isOp("<==>") {
		p.next()
		r, err := p.implies()
		if err != nil {
			return nil, err
		}
		l = &Binary{p.b(), "<==>", l, r}
	}
	return l, nil
}

func (p *parser) implies() (Expr, error) {
	l, err := p.cond()
	if err != nil {
		return nil, err
	}
	if p.isOp("==>") {
		p.next()
		r, err := p.implies() // right assoc
		if err != nil {
			return nil, err
		}
		return &Binary{p.b(), "==>", l, r}, nil
	}
	return l, nil
}

func (p *parser) cond() (Expr, error) {
	c, err := p.or()
	if err != nil {
		return nil, err
	}
	if p.isOp("?") {
		p.next()
		t, err := p.cond()
		if err != nil {
			return nil, err
		}
		if err := p.expect(":"); err != nil {
			return nil, err
		}
		e, err := p.cond()
		if err != nil {
			return nil, err
		}
		return &Cond{p.b(), c, t, e}, nil
	}
	return c, nil
}

func (p *parser) or() (Expr, error) {
	l, err := p.and()
	if err != nil {
		return nil, err
	}
	for p.isOp("||") {
		p.next()
		r, err := p.and()
		if err != nil {
			return nil, err
		}
		l = &Binary{p.b(), "||", l, r}
	}
	return l, nil
}

func (p *parser) and() (Expr, error) {
	l, err := p.cmp()
	if err != nil {
		return nil, err
	}
	for p.isOp("&&") {
		p.next()
		r, err := p.cmp()
		if err != nil {
			return nil, err
		}
		l = &Binary{p.b(), "&&", l, r}
	}
	return l, nil
}

func (p *parser) cmp() (Expr, error) {
	l, err := p.add()
	if err != nil {
		return nil, err
	}
	for {
		t := p.peek()
		if t.kind == "op" && (t.text == "==" || t.text == "!=" || t.text == "<" || t.text == "<=" || t.text == ">" || t.text == ">=") {
			p.next()
			r, err := p.add()
			if err != nil {
				return nil, err
			}
			l = &Binary{p.b(), t.text, l, r}
			continue
		}
		if t.kind == "id" && t.text == "in" {
			p.next()
			r, err := p.add()
			if err != nil {
				return nil, err
			}
			l = &Binary{p.b(), "in", l, r}
			continue
		}
		return l, nil
	}
}

func (p *parser) add() (Expr, error) {
	l, err := p.mul()
	if err != nil {
		return nil, err
	}
	for p.isOp("+") || p.isOp("-") {
		o := p.next().text
		r, err := p.mul()
		if err != nil {
			return nil, err
		}
		l = &Binary{p.b(), o, l, r}
	}
	return l, nil
}

func (p *parser) mul() (Expr, error) {
	l, err := p.unary()
	if err != nil {
		return nil, err
	}
	for p.isOp("*") || p.isOp("/") || p.isOp("%") {
		o := p.next().text
		r, err := p.unary()
		if err != nil {
			return nil, err
		}
		l = &Binary{p.b(), o, l, r}
	}
	return l, nil
}

func (p *parser) unary() (Expr, error) {
	if p.isOp("!") || p.isOp("-") || p.isOp("*") {
		o := p.next().text
		x, err := p.unary()
		if err != nil {
			return nil, err
		}
		return &Unary{p.b(), o, x}, nil
	}
	return p.postfix()
}

func (p *parser) postfix() (Expr, error) {
	x, err := p.primary()
	if err != nil {
		return nil, err
	}
	for {
		switch {
		case p.isOp("."):
			p.next()
			t := p.next()
			if t.kind != "id" && t.kind != "int" {
				return nil, fmt.Errorf("%s: expected field name after '.', found %q", p.pos, t.text)
			}
			x = &Select{p.b(), x, t.text}
		case p.isOp("["):
			p.next()
			var lo, hi Expr
			if !p.isOp(":") {
				lo, err = p.expr()
				if err != nil {
					return nil, err
				}
			}
			if p.accept(":") {
				if !p.isOp("]") {
					hi, err = p.expr()
					if err != nil {
						return nil, err
					}
				}
				if err := p.expect("]"); err != nil {
					return nil, err
				}
				x = &SliceE{p.b(), x, lo, hi}
			} else {
				if err := p.expect("]"); err != nil {
					return nil, err
				}
				x = &Index{p.b(), x, lo}
			}
		case p.isOp("("):
			p.next()
			var args []Expr
			for !p.isOp(")") {
				a, err := p.expr()
				if err != nil {
					return nil, err
				}
				args = append(args, a)
				if !p.accept(",") {
					break
				}
			}
			if err := p.expect(")"); err != nil {
				return nil, err
			}
			if id, ok := x.(*Ident); ok && id.Name == "old" && len(args) == 1 {
				x = &Old{p.b(), args[0]}
			} else {
				x = &Call{p.b(), x, args}
			}
		default:
			return x, nil
		}
	}
}

func (p *parser) primary() (Expr, error) {
	t := p.next()
	switch t.kind {
	case "int":
		return &IntLit{p.b(), t.text}, nil
	case "str":
		return &StrLit{p.b(), t.text}, nil
	case "id":
		switch t.text {
		case "true":
			return &BoolLit{p.b(), true}, nil
		case "false":
			return &BoolLit{p.b(), false}, nil
		case "nil":
			return &NilLit{p.b()}, nil
		case "forall", "exists":
			vars, err := p.varList("::")
			if err != nil {
				return nil, err
			}
			if err := p.expect("::"); err != nil {
				return nil, err
			}
			q := &Quant{base: p.b(), Forall: t.text == "forall", Vars: vars}
			// optional triggers: { e, e } { e }
			for p.isOp("{") {
				p.next()
				var pat []Expr
				for {
					e, err := p.expr()
					if err != nil {
						return nil, err
					}
					pat = append(pat, e)
					if !p.accept(",") {
						break
					}
				}
				if err := p.expect("}"); err != nil {
					return nil, err
				}
				q.Pats = append(q.Pats, pat)
			}
			body, err := p.expr()
			if err != nil {
				return nil, err
			}
			q.Body = body
			return q, nil
		case "let":
			n := p.next()
			if n.kind != "id" {
				return nil, fmt.Errorf("%s: let: expected name", p.pos)
			}
			if err := p.expect("="); err != nil {
				return nil, err
			}
			v, err := p.expr()
			if err != nil {
				return nil, err
			}
			if err := p.expect("::"); err != nil {
				return nil, err
			}
			b, err := p.expr()
			if err != nil {
				return nil, err
			}
			return &Let{p.b(), n.text, v, b}, nil
		}
		return &Ident{p.b(), t.text}, nil
	case "op":
		if t.text == "(" {
			e, err := p.expr()
			if err != nil {
				return nil, err
			}
			if err := p.expect(")"); err != nil {
				return nil, err
			}
			return e, nil
		}
	}
	return nil, fmt.Errorf("%s: unexpected token %q", p.pos, t.text)
}

// varList parses `a, b T, c U` up to (not including) the stop operator.
func (p *parser) varList(stop string) ([]Var, error) {
	var out []Var
	var pending []string
	for !p.isOp(stop) && p.peek().kind != "eof" {
		n := p.next()
		if n.kind != "id" {
			return nil, fmt.Errorf("%s: expected variable name, found %q", p.pos, n.text)
		}
		pending = append(pending, n.text)
		if p.accept(",") {
			continue
		}
		ty, err := p.typeExpr()
		if err != nil {
			return nil, err
		}
		for _, v := range pending {
			out = append(out, Var{v, ty})
		}
		pending = nil
		if !p.accept(",") {
			break
		}
	}
	if len(pending) > 0 {
		return nil, fmt.Errorf("%s: variables %v lack a type", p.pos, pending)
	}
	return out, nil
}

// ParseType parses a type written as in a contract ("[]any", "*T", "map[string]any", "pkg.T").
func ParseType(src string) (TypeExpr, error) {
	toks, err := lex(src)
	if err != nil {
		return TypeExpr{}, err
	}
	p := &parser{toks: toks}
	return p.typeExpr()
}

func (p *parser) typeExpr() (TypeExpr, error) {
	if p.accept("*") {
		e, err := p.typeExpr()
		if err != nil {
			return TypeExpr{}, err
		}
		return TypeExpr{Kind: "ptr", Elem: &e}, nil
	}
	if p.accept("[") {
		if err := p.expect("]"); err != nil {
			return TypeExpr{}, err
		}
		e, err := p.typeExpr()
		if err != nil {
			return TypeExpr{}, err
		}
		return TypeExpr{Kind: "slice", Elem: &e}, nil
	}
	t := p.next()
	if t.kind != "id" {
		return TypeExpr{}, fmt.Errorf("%s: expected type, found %q", p.pos, t.text)
	}
	if t.text == "struct" {
		if err := p.expect("{"); err != nil {
			return TypeExpr{}, err
		}
		if err := p.expect("}"); err != nil {
			return TypeExpr{}, err
		}
		return TypeExpr{Kind: "name", Name: "struct{}"}, nil
	}
	if t.text == "map" {
		if err := p.expect("["); err != nil {
			return TypeExpr{}, err
		}
		k, err := p.typeExpr()
		if err != nil {
			return TypeExpr{}, err
		}
		if err := p.expect("]"); err != nil {
			return TypeExpr{}, err
		}
		e, err := p.typeExpr()
		if err != nil {
			return TypeExpr{}, err
		}
		return TypeExpr{Kind: "map", Key: &k, Elem: &e}, nil
	}
	name := t.text
	if p.isOp(".") {
		p.next()
		n2 := p.next()
		name += "." + n2.text
	}
	return TypeExpr{Kind: "name", Name: name}, nil
}

// ParseExpr parses a standalone expression (used by tests and tools).
func ParseExpr(s string) (Expr, error) {
	toks, err := lex(s)
	if err != nil {
		return nil, err
	}
	p := &parser{toks: toks}
	e, err := p.expr()
	if err != nil {
		return nil, err
	}
	if p.peek().kind != "eof" {
		return nil, fmt.Errorf("trailing input %q", p.peek().text)
	}
	return e, nil
}

// ---------------------------------------------------------------- file parser

// Line is one `//@` line with its payload (text after `//@`).
type Line struct {
	Text string
	Pos  Position
}

var clauseKeywords = map[string]bool{
	"func": true, "closure": true, "interface": true, "extern": true,
	"property": true, "trusted": true, "pure": true, "effect": true, "inline": true,
	"requires": true, "ensures": true, "ensures_here": true, "modifies": true,
	"loop": true, "invariant": true, "decreases": true, "unordered": true,
	"spec": true, "axiom": true, "lemma": true, "sort": true, "witness": true, "uses": true, "induction": true, "ghost": true, "deterministic": true, "reports_all": true, "global": true, "global_assumed": true,
}

type logical struct {
	kw   string
	rest string
	pos  Position
}

func firstWord(s string) (string, string) {
	s = strings.TrimSpace(s)
	i := strings.IndexFunc(s, func(r rune) bool { return !(unicode.IsLetter(r) || r == '_') })
	if i < 0 {
		return s, ""
	}
	return s[:i], s[i:]
}

// ParseLines parses the `//@` lines of one contract file.
func ParseLines(pkg, path string, lines []Line) (*File, error) {
	var ls []logical
	for _, ln := range lines {
		txt := ln.Text
		if strings.TrimSpace(txt) == "" {
			continue
		}
		w, rest := firstWord(txt)
		if clauseKeywords[w] {
			ls = append(ls, logical{w, rest, ln.Pos})
		} else {
			if len(ls) == 0 {
				return nil, fmt.Errorf("%s: continuation line without a clause", ln.Pos)
			}
			ls[len(ls)-1].rest += "\n" + txt
		}
	}
	f := &File{Pkg: pkg, Path: path}
	var cur *FuncSpec
	var curLoop *LoopSpec
	var curLemma *Lemma
	for _, l := range ls {
		rest := strings.TrimSpace(l.rest)
		switch l.kw {
		case "func", "closure", "interface", "extern":
			curLemma = nil
			curLoop = nil
			fs, err := parseFuncHeader(l.kw, rest, l.pos)
			if err != nil {
				return nil, err
			}
			fs.Pkg = pkg
			f.Funcs = append(f.Funcs, fs)
			cur = fs
		case "property":
			props := strings.Fields(rest)
			if curLemma != nil {
				curLemma.Props = append(curLemma.Props, props...)
			} else if cur != nil {
				cur.Props = append(cur.Props, props...)
			} else {
				return nil, fmt.Errorf("%s: property outside func/lemma", l.pos)
			}
		case "reports_all":
			if cur == nil {
				return nil, fmt.Errorf("%s: reports_all outside func", l.pos)
			}
			cur.ReportsAll = true
		case "deterministic":
			if cur == nil {
				return nil, fmt.Errorf("%s: deterministic outside func", l.pos)
			}
			cur.Deterministic = true
		case "pure", "effect", "inline":
			if cur == nil {
				return nil, fmt.Errorf("%s: %s outside func", l.pos, l.kw)
			}
			switch l.kw {
			case "pure":
				cur.Pure = true
			case "effect":
				cur.Effect = true
			case "inline":
				cur.Inline = true
			}
		case "trusted":
			if cur == nil {
				return nil, fmt.Errorf("%s: trusted outside func", l.pos)
			}
			cur.Trusted = true
			cur.TrustWhy = strings.Trim(rest, `"`)
			if cur.TrustWhy == "" {
				return nil, fmt.Errorf("%s: trusted needs a reason", l.pos)
			}
		case "induction":
			if curLemma == nil {
				return nil, fmt.Errorf("%s: induction outside lemma", l.pos)
			}
			curLemma.Induction = strings.TrimSpace(rest)
		case "uses":
			if curLemma != nil {
				curLemma.Uses = append(curLemma.Uses, splitUses(rest)...)
			} else if cur != nil {
				cur.Uses = append(cur.Uses, splitUses(rest)...)
			} else {
				return nil, fmt.Errorf("%s: uses outside lemma/func", l.pos)
			}
		case "witness":
			if cur != nil {
				cur.Witnesses = append(cur.Witnesses, rest)
			}
		case "requires", "ensures", "ensures_here", "invariant", "decreases":
			here := l.kw == "ensures_here"
			if here {
				l.kw = "ensures"
			}
			c, err := parseClause(l.kw, rest, l.pos)
			if err != nil {
				return nil, err
			}
			c.Local = here
			switch {
			case curLemma != nil:
				if l.kw == "requires" {
					curLemma.Hyps = append(curLemma.Hyps, c)
				} else if l.kw == "ensures" {
					curLemma.Concl = append(curLemma.Concl, c)
				} else {
					return nil, fmt.Errorf("%s: %s in lemma", l.pos, l.kw)
				}
			case cur == nil:
				return nil, fmt.Errorf("%s: %s outside func", l.pos, l.kw)
			case l.kw == "requires":
				cur.Requires = append(cur.Requires, c)
			case l.kw == "ensures":
				cur.Ensures = append(cur.Ensures, c)
			case l.kw == "invariant":
				if curLoop == nil {
					return nil, fmt.Errorf("%s: invariant outside loop", l.pos)
				}
				curLoop.Invariants = append(curLoop.Invariants, c)
			case l.kw == "decreases":
				if curLoop == nil {
					return nil, fmt.Errorf("%s: decreases outside loop", l.pos)
				}
				curLoop.Decreases = c
			}
		case "modifies":
			if cur == nil {
				return nil, fmt.Errorf("%s: modifies outside func", l.pos)
			}
			toks, err := lex(rest)
			if err != nil {
				return nil, fmt.Errorf("%s: %v", l.pos, err)
			}
			p := &parser{toks: toks, pos: l.pos}
			for p.peek().kind != "eof" {
				e, err := p.expr()
				if err != nil {
					return nil, err
				}
				cur.Modifies = append(cur.Modifies, e)
				if !p.accept(",") {
					break
				}
			}
		case "loop":
			if cur == nil {
				return nil, fmt.Errorf("%s: loop outside func", l.pos)
			}
			k, err := strconv.Atoi(strings.TrimSpace(rest))
			if err != nil {
				return nil, fmt.Errorf("%s: loop ordinal: %v", l.pos, err)
			}
			if cur.Loops == nil {
				cur.Loops = map[int]*LoopSpec{}
			}
			curLoop = &LoopSpec{Ordinal: k, Pos: l.pos}
			cur.Loops[k] = curLoop
		case "unordered":
			if curLoop == nil {
				return nil, fmt.Errorf("%s: unordered outside loop", l.pos)
			}
			curLoop.Unordered = append(curLoop.Unordered, strings.Fields(rest)...)
		case "spec":
			cur, curLoop, curLemma = nil, nil, nil
			sf, err := parseSpecFunc(rest, l.pos)
			if err != nil {
				return nil, err
			}
			sf.Pkg = pkg
			f.Specs = append(f.Specs, sf)
		case "axiom":
			cur, curLoop, curLemma = nil, nil, nil
			c, err := parseClause("axiom", rest, l.pos)
			if err != nil {
				return nil, err
			}
			f.Axioms = append(f.Axioms, &Axiom{Name: c.Label, Pkg: pkg, Expr: c.Expr, Pos: l.pos})
		case "lemma":
			cur, curLoop = nil, nil
			toks, err := lex(rest)
			if err != nil {
				return nil, fmt.Errorf("%s: %v", l.pos, err)
			}
			p := &parser{toks: toks, pos: l.pos}
			n := p.next()
			lm := &Lemma{Name: n.text, Pkg: pkg, Pos: l.pos}
			if p.accept("(") {
				vs, err := p.varList(")")
				if err != nil {
					return nil, err
				}
				if err := p.expect(")"); err != nil {
					return nil, err
				}
				lm.Vars = vs
			}
			f.Lemmas = append(f.Lemmas, lm)
			curLemma = lm
		case "ghost":
			cur, curLoop, curLemma = nil, nil, nil
			toks, err := lex(rest)
			if err != nil {
				return nil, fmt.Errorf("%s: %v", l.pos, err)
			}
			p := &parser{toks: toks, pos: l.pos}
			n := p.next()
			ty, err := p.typeExpr()
			if err != nil {
				return nil, err
			}
			f.Ghosts = append(f.Ghosts, &Ghost{Name: n.text, Type: ty, Pos: l.pos})
		case "global", "global_assumed":
			cur, curLoop, curLemma = nil, nil, nil
			c, err := parseClause("global", rest, l.pos)
			if err != nil {
				return nil, err
			}
			f.Globals = append(f.Globals, &Global{Clause: c, Pkg: pkg, Assumed: l.kw == "global_assumed"})
		case "sort":
			cur, curLoop, curLemma = nil, nil, nil
			sd, err := parseSort(rest, l.pos)
			if err != nil {
				return nil, err
			}
			sd.Pkg = pkg
			f.Sorts = append(f.Sorts, sd)
		}
	}
	return f, nil
}

func parseFuncHeader(kw, rest string, pos Position) (*FuncSpec, error) {
	fs := &FuncSpec{Kind: kw, Pos: pos}
	if kw == "extern" || kw == "interface" {
		fs.NoBody = true
	}
	// key: everything up to first '(' that is not part of a receiver "(T)." prefix, or up to whitespace
	rest = strings.TrimSpace(rest)
	key := rest
	sig := ""
	// receiver form: (T).Name or (*T).Name
	i := 0
	if strings.HasPrefix(rest, "(") {
		j := strings.Index(rest, ").")
		if j < 0 {
			return nil, fmt.Errorf("%s: bad receiver in %q", pos, rest)
		}
		i = j + 2
	} else if j := strings.Index(rest, ")."); j >= 0 {
		// qualified method: pkg/path.(*T).Name
		if o := strings.Index(rest, ".("); o >= 0 && o < j && !strings.ContainsAny(rest[:j], " \t") {
			i = j + 2
		}
	}
	k := strings.IndexAny(rest[i:], "( \t")
	if k >= 0 {
		key = rest[:i+k]
		sig = strings.TrimSpace(rest[i+k:])
	}
	fs.Key = key
	// optional signature "(a T, b U) (r V)" or "(a T) V" followed by flags
	if strings.HasPrefix(sig, "(") {
		toks, err := lex(sig)
		if err != nil {
			return nil, fmt.Errorf("%s: %v", pos, err)
		}
		p := &parser{toks: toks, pos: pos}
		p.next()
		vs, err := p.varList(")")
		if err != nil {
			return nil, err
		}
		if err := p.expect(")"); err != nil {
			return nil, err
		}
		fs.Params = vs
		if p.accept("(") {
			rs, err := p.varList(")")
			if err != nil {
				return nil, err
			}
			if err := p.expect(")"); err != nil {
				return nil, err
			}
			fs.Results = rs
		} else if p.peek().kind == "id" && !clauseKeywords[p.peek().text] || p.isOp("*") || p.isOp("[") {
			ty, err := p.typeExpr()
			if err != nil {
				return nil, err
			}
			fs.Results = []Var{{"result", ty}}
		}
		for p.peek().kind == "id" {
			switch p.next().text {
			case "pure":
				fs.Pure = true
			case "effect":
				fs.Effect = true
			case "inline":
				fs.Inline = true
			default:
				return nil, fmt.Errorf("%s: unknown flag in %q", pos, sig)
			}
		}
	} else {
		for _, w := range strings.Fields(sig) {
			switch w {
			case "pure":
				fs.Pure = true
			case "effect":
				fs.Effect = true
			case "inline":
				fs.Inline = true
			default:
				return nil, fmt.Errorf("%s: unknown flag %q", pos, w)
			}
		}
	}
	return fs, nil
}

// parseClause parses `[label props...] expr`.
func parseClause(kind, rest string, pos Position) (*Clause, error) {
	c := &Clause{Kind: kind, Raw: rest, Pos: pos}
	rest = strings.TrimSpace(rest)
	if strings.HasPrefix(rest, "[") {
		j := strings.Index(rest, "]")
		if j < 0 {
			return nil, fmt.Errorf("%s: unterminated [label]", pos)
		}
		fs := strings.Fields(rest[1:j])
		// a leading [..] is a label only if it looks like one: first field is an identifier-ish word
		if len(fs) > 0 && isLabel(fs[0]) {
			c.Label = fs[0]
			for _, f := range fs[1:] {
				if strings.HasPrefix(f, "@") {
					c.Group = f[1:]
				} else {
					c.Props = append(c.Props, f)
				}
			}
			rest = rest[j+1:]
		}
	}
	toks, err := lex(rest)
	if err != nil {
		return nil, fmt.Errorf("%s: %v", pos, err)
	}
	p := &parser{toks: toks, pos: pos}
	e, err := p.expr()
	if err != nil {
		return nil, err
	}
	if p.peek().kind != "eof" {
		return nil, fmt.Errorf("%s: trailing input %q in %s clause", pos, p.peek().text, kind)
	}
	c.Expr = e
	return c, nil
}

func isLabel(s string) bool {
	for _, r := range s {
		if !(unicode.IsLetter(r) || unicode.IsDigit(r) || r == '_' || r == '-' || r == '.' || r == '@') {
			return false
		}
	}
	return s != ""
}

func parseSpecFunc(rest string, pos Position) (*SpecFunc, error) {
	toks, err := lex(rest)
	if err != nil {
		return nil, fmt.Errorf("%s: %v", pos, err)
	}
	p := &parser{toks: toks, pos: pos}
	n := p.next()
	if n.kind != "id" {
		return nil, fmt.Errorf("%s: spec: expected name", pos)
	}
	sf := &SpecFunc{Name: n.text, Pos: pos}
	if err := p.expect("("); err != nil {
		return nil, err
	}
	vs, err := p.varList(")")
	if err != nil {
		return nil, err
	}
	if err := p.expect(")"); err != nil {
		return nil, err
	}
	sf.Params = vs
	ty, err := p.typeExpr()
	if err != nil {
		return nil, err
	}
	sf.Result = ty
	if p.accept("=") {
		b, err := p.expr()
		if err != nil {
			return nil, err
		}
		sf.Body = b
	}
	if p.peek().kind != "eof" {
		return nil, fmt.Errorf("%s: trailing input %q in spec", pos, p.peek().text)
	}
	return sf, nil
}

func parseSort(rest string, pos Position) (*SortDecl, error) {
	toks, err := lex(rest)
	if err != nil {
		return nil, fmt.Errorf("%s: %v", pos, err)
	}
	p := &parser{toks: toks, pos: pos}
	n := p.next()
	sd := &SortDecl{Name: n.text, Pos: pos}
	if !p.accept("=") {
		return sd, nil // uninterpreted sort
	}
	for {
		cn := p.next()
		if cn.kind != "id" {
			return nil, fmt.Errorf("%s: sort: expected constructor name", pos)
		}
		c := Ctor{Name: cn.text}
		if p.accept("(") {
			vs, err := p.varList(")")
			if err != nil {
				return nil, err
			}
			if err := p.expect(")"); err != nil {
				return nil, err
			}
			c.Fields = vs
		}
		sd.Ctors = append(sd.Ctors, c)
		if !p.accept("|") {
			break
		}
	}
	return sd, nil
}

// splitUses splits the operand of `uses` into lemma references: names, or name(arg, ...) instantiations (blanks
// inside the parentheses do not separate).
func splitUses(s string) []string {
	var out []string
	depth, start := 0, -1
	for i, r := range s {
		switch {
		case r == '(':
			depth++
		case r == ')':
			depth--
		case (r == ' ' || r == '\t') && depth == 0:
			if start >= 0 {
				out = append(out, s[start:i])
				start = -1
			}
			continue
		}
		if start < 0 {
			start = i
		}
	}
	if start >= 0 {
		out = append(out, s[start:])
	}
	return out
}
