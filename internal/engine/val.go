package engine

import (
	"fmt"
	"go/constant"
	"go/types"
	"strings"

	"golang.org/x/tools/go/ssa"
)

// Cell is an addressable storage location known to the executor (Alloc, pointer
// parameter target, global, ghost). Its current content is State.cells[cell].
type Cell struct {
	Name string
	T    types.Type
	Sort string // if T == nil (ghost cells)
	id   int
}

type StepKind int

const (
	StepField StepKind = iota
	StepIndex
	StepOptVal
)

type Step struct {
	Kind  StepKind
	T     types.Type // type of the container the step is applied to
	Field int
	Idx   string
}

// Loc is an lvalue: a cell plus a path into its content.
type Loc struct {
	Cell *Cell
	Path []Step
}

func (l *Loc) extend(s Step) *Loc {
	p := make([]Step, len(l.Path)+1)
	copy(p, l.Path)
	p[len(l.Path)] = s
	return &Loc{l.Cell, p}
}

// Closure is a function value whose code is known.
type Closure struct {
	Fn       *ssa.Function
	Bindings []Val
	Recv     *Val // bound method receiver
}

// RangeState is the ghost state of a `range m` over a map or string.
type RangeState struct {
	Map     Val
	Visited *Cell
	KeySort string
	IsStr   bool
	Str     string
	PosCell *Cell
}

// Val is a symbolic value.
type Val struct {
	T     types.Type
	Term  string // SMT term (value types; Opt term for pointers without Loc)
	Loc   *Loc   // pointer values: where they point
	Nil   string // pointer values with Loc: Bool term "is nil"
	Home  *Loc   // slice/map values loaded from a location: write-back target
	Obj   *Cell  // slice/map values that *are* an object (make/mutated): content read on use
	Clo   *Closure
	Tuple []Val
	Re    *string // *regexp.Regexp with a known constant pattern
	Range *RangeState
	Sort  string   // spec-level values whose sort is not a Go type (T == nil)
	Runes *RuneSrc // []rune values that are a window of []rune(s): which string, starting at which rune index
}

// RuneSrc is the provenance of a rune slice obtained from a string (A7: valid UTF-8): the slice holds the runes
// Lo, Lo+1, ... of S; rune k of S occupies the bytes rune_off(S,k) .. rune_off(S,k+1)-1.
type RuneSrc struct {
	S  string
	Lo string
}

// State is the mutable part of the symbolic state.
type State struct {
	cells map[*Cell]string
	// ptrs remembers, for cells that hold a pointer (captured pointer variables), which location the
	// stored pointer designates, so that pointer identity survives a store/load round trip.
	ptrs map[*Cell]Val
}

func NewState() *State { return &State{cells: map[*Cell]string{}, ptrs: map[*Cell]Val{}} }

func (s *State) clone() *State {
	n := NewState()
	for k, v := range s.cells {
		n.cells[k] = v
	}
	for k, v := range s.ptrs {
		n.ptrs[k] = v
	}
	return n
}

func (vc *VC) newCell(name string, t types.Type) *Cell {
	vc.n++
	return &Cell{Name: name, T: t, id: vc.n}
}

func (vc *VC) cellSort(c *Cell) string {
	if c.T == nil {
		return c.Sort
	}
	return vc.S.Sort(c.T)
}

// readPath reads the value at path inside term.
func (vc *VC) readPath(term string, path []Step) string {
	for _, st := range path {
		switch st.Kind {
		case StepField:
			srt := vc.S.Sort(st.T)
			s := structOf(st.T)
			term = fmt.Sprintf("(%s %s)", fieldSel(srt, s.Field(st.Field).Name()), term)
		case StepIndex:
			srt := vc.S.Sort(st.T)
			term = sliceAt(srt, term, st.Idx)
		case StepOptVal:
			srt := vc.S.Sort(st.T) // Opt_X
			term = fmt.Sprintf("(val_%s %s)", strings.TrimPrefix(srt, "Opt_"), term)
		}
	}
	return term
}

func structOf(t types.Type) *types.Struct {
	s, _ := t.Underlying().(*types.Struct)
	return s
}

// writePath returns term with the value at path replaced by v.
func (vc *VC) writePath(term string, path []Step, v string) string {
	if len(path) == 0 {
		return v
	}
	st := path[0]
	switch st.Kind {
	case StepField:
		srt := vc.S.Sort(st.T)
		s := structOf(st.T)
		var fs []string
		for i := 0; i < s.NumFields(); i++ {
			cur := fmt.Sprintf("(%s %s)", fieldSel(srt, s.Field(i).Name()), term)
			if i == st.Field {
				cur = vc.writePath(cur, path[1:], v)
			}
			fs = append(fs, cur)
		}
		return "(mk_" + srt + " " + strings.Join(fs, " ") + ")"
	case StepIndex:
		srt := vc.S.Sort(st.T)
		inner := vc.writePath(sliceAt(srt, term, st.Idx), path[1:], v)
		return mkSlice(srt, fmt.Sprintf("(store %s %s %s)", sliceArr(srt, term), st.Idx, inner), fmt.Sprintf("(len_%s %s)", srt, term), sliceNil(srt, term))
	case StepOptVal:
		srt := vc.S.Sort(st.T)
		e := strings.TrimPrefix(srt, "Opt_")
		inner := vc.writePath(fmt.Sprintf("(val_%s %s)", e, term), path[1:], v)
		return fmt.Sprintf("(some_%s %s)", e, inner)
	}
	return term
}

func (vc *VC) load(st *State, l *Loc) string {
	cur, ok := st.cells[l.Cell]
	if !ok {
		// first touch of a cell not initialised in this state (e.g. global): fresh symbol
		cur = vc.declareConst("cell_"+sanitize(l.Cell.Name)+fmt.Sprintf("_%d", l.Cell.id), vc.cellSort(l.Cell))
		st.cells[l.Cell] = cur
	}
	return vc.readPath(cur, l.Path)
}

func (vc *VC) store(st *State, l *Loc, v string) {
	cur, ok := st.cells[l.Cell]
	if !ok {
		cur = vc.declareConst("cell_"+sanitize(l.Cell.Name)+fmt.Sprintf("_%d", l.Cell.id), vc.cellSort(l.Cell))
	}
	if len(l.Path) > 0 {
		cur = vc.define("cur_"+l.Cell.Name, vc.cellSort(l.Cell), cur)
	}
	nv := vc.writePath(cur, l.Path, v)
	if len(nv) > 200 {
		nv = vc.define("st_"+l.Cell.Name, vc.cellSort(l.Cell), nv)
	}
	st.cells[l.Cell] = nv
	delete(st.ptrs, l.Cell)
}

// term returns the SMT term of a value in the given state (reads object cells).
func (vc *VC) term(st *State, v Val) string {
	if v.Obj != nil {
		return vc.load(st, &Loc{Cell: v.Obj})
	}
	if v.Loc != nil {
		// pointer with location, needed as a value: Opt term
		return vc.ptrToOpt(st, v)
	}
	if v.Term == "" && v.Clo != nil {
		id := vc.funcID(v.Clo.Fn)
		if k := "clononnil:" + id; !vc.wf[k] {
			vc.wf[k] = true
			vc.fact(fmt.Sprintf("(not (= %s %s))", id, vc.S.Zero(v.Clo.Fn.Signature))) // a function literal / bound method is not the nil function value
		}
		return id
	}
	return v.Term
}

func (vc *VC) funcID(f *ssa.Function) string {
	name := "fn_" + sanitize(FuncKey(f))
	vc.declareConst(name, "Int")
	return name
}

// ptrToOpt converts a pointer value to its Opt_T data representation.
func (vc *VC) ptrToOpt(st *State, v Val) string {
	if v.Loc == nil {
		return v.Term
	}
	pt, ok := v.T.Underlying().(*types.Pointer)
	if !ok {
		return v.Term
	}
	e := vc.S.Sort(pt.Elem())
	vc.S.Sort(v.T)
	some := fmt.Sprintf("(some_%s %s)", e, vc.load(st, v.Loc))
	if v.Nil == "" || v.Nil == "false" {
		return some
	}
	return ite(v.Nil, "none_"+e, some)
}

// ptrNil returns the Bool term "pointer is nil".
func (vc *VC) ptrNil(v Val) string {
	if v.Loc != nil {
		if v.Nil == "" {
			return "false"
		}
		return v.Nil
	}
	pt, ok := v.T.Underlying().(*types.Pointer)
	if !ok {
		return "false"
	}
	e := vc.S.Sort(pt.Elem())
	vc.S.Sort(v.T)
	return fmt.Sprintf("((_ is none_%s) %s)", e, v.Term)
}

// ptrLoc returns a location for the pointee of v (materialising a temp cell for value pointers).
func (vc *VC) ptrLoc(st *State, v Val) *Loc {
	if v.Loc != nil {
		return v.Loc
	}
	pt, ok := v.T.Underlying().(*types.Pointer)
	if !ok {
		vc.outside("dereference of non-pointer %s", v.T)
		return &Loc{Cell: vc.newCell("bad", types.Typ[types.Int])}
	}
	if v.Home != nil {
		return v.Home.extend(Step{Kind: StepOptVal, T: v.T})
	}
	e := vc.S.Sort(pt.Elem())
	vc.S.Sort(v.T)
	c := vc.newCell("deref", pt.Elem())
	st.cells[c] = fmt.Sprintf("(val_%s %s)", e, v.Term)
	return &Loc{Cell: c}
}

func constString(c *ssa.Const) string {
	return constant.StringVal(c.Value)
}

// constVal converts an SSA constant.
func (vc *VC) constVal(c *ssa.Const) Val {
	t := c.Type()
	if c.Value == nil {
		// nil / zero value
		if _, ok := t.Underlying().(*types.Pointer); ok {
			return Val{T: t, Term: vc.S.Zero(t)}
		}
		return Val{T: t, Term: vc.S.Zero(t)}
	}
	switch c.Value.Kind() {
	case constant.Bool:
		if constant.BoolVal(c.Value) {
			return Val{T: t, Term: "true"}
		}
		return Val{T: t, Term: "false"}
	case constant.String:
		return Val{T: t, Term: strLit(constant.StringVal(c.Value))}
	case constant.Int:
		if b, ok := t.Underlying().(*types.Basic); ok && b.Info()&types.IsFloat != 0 {
			return Val{T: t, Term: vc.floatConst(c.Value.ExactString())}
		}
		s := c.Value.ExactString()
		if strings.HasPrefix(s, "-") {
			return Val{T: t, Term: "(- " + s[1:] + ")"}
		}
		return Val{T: t, Term: s}
	case constant.Float:
		return Val{T: t, Term: vc.floatConst(c.Value.ExactString())}
	}
	vc.outside("constant of kind %v", c.Value.Kind())
	return Val{T: t, Term: vc.fresh("const", vc.S.Sort(t))}
}

func (vc *VC) floatConst(s string) string {
	return vc.declareConst("float_"+sanitize(s), "Int")
}

// mergeVals builds ite(cond, a, b) for term values.
func (vc *VC) mergeTerm(cond, a, b string) string { return ite(cond, a, b) }
