package engine

import (
	"fmt"
	"go/token"
	"go/types"
	"sort"
	"strings"

	"golang.org/x/tools/go/ssa"
)

// Structural obligations are decided on the SSA call graph of /repo itself (no solver): they are the
// frame conditions "no function of the repository does X". Each becomes an obligation whose goal is a
// trivially true or trivially false formula, so that verdicts, evidence and known findings treat them uniformly.

type structural struct {
	Name   string
	Props  []string
	OK     bool
	Detail string
	Pos    token.Position
}

var fileMutators = map[string]bool{
	"os.WriteFile": true, "os.Create": true, "os.OpenFile": true, "os.Remove": true, "os.RemoveAll": true, "os.Rename": true,
	"os.Mkdir": true, "os.MkdirAll": true, "os.Truncate": true, "os.Chmod": true, "os.Symlink": true, "os.Link": true,
	"io/ioutil.WriteFile": true, "os.CreateTemp": true, "os.MkdirTemp": true, "os.Chdir": true,
}

var ambientReads = map[string]bool{
	"os.Getenv": true, "os.LookupEnv": true, "os.Environ": true, "os.Getwd": true, "os.Hostname": true, "os.Getpid": true,
	"time.Now": true, "time.Since": true, "os.UserHomeDir": true, "os.Executable": true,
}

func (w *World) repoFuncsSorted() []*ssa.Function {
	var keys []string
	for k := range w.Funcs {
		keys = append(keys, k)
	}
	sort.Strings(keys)
	var out []*ssa.Function
	for _, k := range keys {
		out = append(out, w.Funcs[k])
	}
	return out
}

// Structural computes the structural obligations.
func (w *World) Structural() []structural {
	var out []structural
	var writers, ambient, gos, recs, badLoops, globalWrites []string
	var wpos, apos token.Position
	callees := map[*ssa.Function][]*ssa.Function{}
	for _, f := range w.repoFuncsSorted() {
		for _, b := range f.Blocks {
			for _, in := range b.Instrs {
				switch in := in.(type) {
				case *ssa.Go:
					gos = append(gos, FuncKey(f))
				case *ssa.Select, *ssa.Send:
					gos = append(gos, FuncKey(f)+" (channel operation)")
				case *ssa.Store:
					if g, ok := in.Addr.(*ssa.Global); ok && !strings.HasPrefix(f.Name(), "init") && g.Pkg != nil && strings.HasPrefix(g.Pkg.Pkg.Path(), RepoModule) {
						globalWrites = append(globalWrites, FuncKey(f)+" writes "+g.Name())
					}
				case ssa.CallInstruction:
					c := in.Common()
					if callee := c.StaticCallee(); callee != nil {
						q := qualifiedName(callee)
						if fileMutators[q] {
							writers = append(writers, FuncKey(f)+" calls "+q)
							wpos = w.Fset.Position(in.Pos())
						}
						if ambientReads[q] || strings.HasPrefix(q, "math/rand.") || (strings.HasPrefix(q, "runtime.") && !strings.HasPrefix(q, "runtime.FuncForPC")) {
							ambient = append(ambient, FuncKey(f)+" calls "+q)
							apos = w.Fset.Position(in.Pos())
						}
						if IsRepo(callee) {
							callees[f] = append(callees[f], callee)
						}
					}
					if mc, ok := c.Value.(*ssa.MakeClosure); ok {
						callees[f] = append(callees[f], mc.Fn.(*ssa.Function))
					}
				}
				if mc, ok := in.(*ssa.MakeClosure); ok {
					callees[f] = append(callees[f], mc.Fn.(*ssa.Function))
				}
			}
		}
		// every loop is a range loop (terminates by construction) or has a `decreases` clause
		for _, b := range f.Blocks {
			for _, s := range b.Succs {
				if s.Dominates(b) {
					isRange := false
					for _, in := range s.Instrs {
						if phi, ok := in.(*ssa.Phi); ok && phi.Comment == "rangeindex" {
							isRange = true
						}
						if _, ok := in.(*ssa.Next); ok {
							isRange = true
						}
					}
					if !isRange {
						sp := w.SpecFor(f)
						has := false
						if sp != nil {
							for _, l := range sp.Loops {
								if l.Decreases != nil {
									has = true
								}
							}
						}
						if !has {
							badLoops = append(badLoops, FuncKey(f))
						}
					}
				}
			}
		}
	}
	// recursion: cycles in the static call graph of /repo (closures included)
	state := map[*ssa.Function]int{}
	var visit func(f *ssa.Function)
	visit = func(f *ssa.Function) {
		state[f] = 1
		for _, c := range callees[f] {
			if o := c.Origin(); o != nil {
				c = o
			}
			switch state[c] {
			case 0:
				visit(c)
			case 1:
				recs = append(recs, FuncKey(f)+" -> "+FuncKey(c))
			}
		}
		state[f] = 2
	}
	for _, f := range w.repoFuncsSorted() {
		if state[f] == 0 {
			visit(f)
		}
	}
	wantWriter := "internal/cmd/runner:(*StepCodeGenerator).Run calls os.WriteFile"
	okW := len(writers) == 1 && writers[0] == wantWriter
	out = append(out, structural{"structural#single-writer", []string{"C10", "C12"}, okW, fmt.Sprintf("file-mutating calls in /repo: %v (expected exactly [%s])", writers, wantWriter), wpos})
	out = append(out, structural{"structural#no-ambient-reads", []string{"C08"}, len(ambient) == 0, fmt.Sprintf("calls reading environment, clock, working directory or randomness: %v", ambient), apos})
	out = append(out, structural{"structural#no-goroutines", []string{"C08", "C12"}, len(gos) == 0, fmt.Sprintf("go statements / channel operations: %v", gos), token.Position{}})
	out = append(out, structural{"structural#no-recursion", []string{"C12"}, len(recs) == 0, fmt.Sprintf("cycles in the static call graph: %v", recs), token.Position{}})
	out = append(out, structural{"structural#loops-terminate", []string{"C12"}, len(badLoops) == 0, fmt.Sprintf("loops that are neither range loops nor carry a decreases clause: %v", badLoops), token.Position{}})
	out = append(out, structural{"structural#globals-written-only-in-init", []string{"C08", "C12", "C05", "C11"}, len(globalWrites) == 0, fmt.Sprintf("writes to package-level variables outside init: %v", globalWrites), token.Position{}})
	return out
}

// StructuralUnit wraps the structural obligations as a verification unit.
func (w *World) StructuralUnit() *Unit {
	vc := NewVC(w, "structural")
	for _, s := range w.Structural() {
		goal := "(= 0 0)"
		if !s.OK {
			goal = "(= 0 1)"
		}
		vc.curPos = s.Pos
		if o := vc.oblige("structural", strings.TrimPrefix(s.Name, "structural#"), "", s.Props, "true", goal); o != nil {
			o.Name = s.Name
			o.Note = s.Detail
		}
	}
	return &Unit{Key: "structural", VC: vc}
}

var _ = types.Typ
