package engine

import (
	"fmt"
	"go/token"
	"go/types"
	"sort"
	"strings"

	"golang.org/x/tools/go/ssa"
)

// Structural obligations are decided on the SSA call graph of /repo itself (no solver): they are the
// frame conditions "no function of the repository does X". Each becomes an obligation whose goal is a
// trivially true or trivially false formula, so that verdicts, evidence and known findings treat them uniformly.

type structural struct {
	Name   string
	Props  []string
	OK     bool
	Detail string
	Pos    token.Position
}

var fileMutators = map[string]bool{
	"os.WriteFile": true, "os.Create": true, "os.OpenFile": true, "os.Remove": true, "os.RemoveAll": true, "os.Rename": true,
	"os.Mkdir": true, "os.MkdirAll": true, "os.Truncate": true, "os.Chmod": true, "os.Symlink": true, "os.Link": true,
	"io/ioutil.WriteFile": true, "os.CreateTemp": true, "os.MkdirTemp": true, "os.Chdir": true,
}

var ambientReads = map[string]bool{
	"os.Getenv": true, "os.LookupEnv": true, "os.Environ": true, "os.Getwd": true, "os.Hostname": true, "os.Getpid": true,
	"time.Now": true, "time.Since": true, "os.UserHomeDir": true, "os.Executable": true,
	// the working directory and the user's environment, read indirectly
	"path/filepath.Abs": true, "path/filepath.EvalSymlinks": true, "os.TempDir": true, "os.UserCacheDir": true, "os.UserConfigDir": true,
	"os.Getuid": true, "os.Geteuid": true, "os.Getgid": true, "os/user.Current": true, "os.ExpandEnv": true, "os.Expand": true,
}

func (w *World) repoFuncsSorted() []*ssa.Function {
	var keys []string
	for k := range w.Funcs {
		keys = append(keys, k)
	}
	sort.Strings(keys)
	var out []*ssa.Function
	for _, k := range keys {
		out = append(out, w.Funcs[k])
	}
	return out
}

// Structural computes the structural obligations.
func (w *World) Structural() []structural {
	var out []structural
	var writers, ambient, gos, recs, badLoops, globalWrites []string
	var wpos, apos token.Position
	callees := map[*ssa.Function][]*ssa.Function{}
	for _, f := range w.repoFuncsSorted() {
		for _, b := range f.Blocks {
			for _, in := range b.Instrs {
				switch in := in.(type) {
				case *ssa.Go:
					gos = append(gos, FuncKey(f))
				case *ssa.Select, *ssa.Send:
					gos = append(gos, FuncKey(f)+" (channel operation)")
				case *ssa.Store:
					if g, ok := in.Addr.(*ssa.Global); ok && !strings.HasPrefix(f.Name(), "init") && g.Pkg != nil && inRepoPath(g.Pkg.Pkg.Path()) {
						globalWrites = append(globalWrites, FuncKey(f)+" writes "+g.Name())
					}
				case ssa.CallInstruction:
					c := in.Common()
					if callee := c.StaticCallee(); callee != nil {
						q := qualifiedName(callee)
						if fileMutators[q] {
							// a helper without contract that is only called statically is part of its callers
							for _, owner := range w.inlineOwners(f, 0) {
								writers = append(writers, FuncKey(owner)+" calls "+q)
							}
							wpos = w.Fset.Position(in.Pos())
						}
						if ambientReads[q] || strings.HasPrefix(q, "math/rand.") || (strings.HasPrefix(q, "runtime.") && !strings.HasPrefix(q, "runtime.FuncForPC")) {
							ambient = append(ambient, FuncKey(f)+" calls "+q)
							apos = w.Fset.Position(in.Pos())
						}
						if IsRepo(callee) {
							callees[f] = append(callees[f], callee)
						}
					}
					if mc, ok := c.Value.(*ssa.MakeClosure); ok {
						callees[f] = append(callees[f], mc.Fn.(*ssa.Function))
					}
				}
				if mc, ok := in.(*ssa.MakeClosure); ok {
					callees[f] = append(callees[f], mc.Fn.(*ssa.Function))
				}
			}
		}
		// every loop is a range loop (terminates by construction) or has a `decreases` clause
		for _, b := range f.Blocks {
			for _, s := range b.Succs {
				if s.Dominates(b) {
					isRange := false
					for _, in := range s.Instrs {
						if phi, ok := in.(*ssa.Phi); ok && phi.Comment == "rangeindex" {
							isRange = true
						}
						if _, ok := in.(*ssa.Next); ok {
							isRange = true
						}
					}
					if !isRange {
						sp := w.SpecFor(f)
						has := false
						if sp != nil {
							for _, l := range sp.Loops {
								if l.Decreases != nil {
									has = true
								}
							}
						}
						if !has {
							badLoops = append(badLoops, FuncKey(f))
						}
					}
				}
			}
		}
	}
	// recursion: cycles in the static call graph of /repo (closures included)
	state := map[*ssa.Function]int{}
	var visit func(f *ssa.Function)
	visit = func(f *ssa.Function) {
		state[f] = 1
		for _, c := range callees[f] {
			if o := c.Origin(); o != nil {
				c = o
			}
			switch state[c] {
			case 0:
				visit(c)
			case 1:
				recs = append(recs, FuncKey(f)+" -> "+FuncKey(c))
			}
		}
		state[f] = 2
	}
	for _, f := range w.repoFuncsSorted() {
		if state[f] == 0 {
			visit(f)
		}
	}
	wantWriter := "internal/cmd/runner:(*StepCodeGenerator).Run calls os.WriteFile"
	okW := len(writers) == 1 && writers[0] == wantWriter
	out = append(out, structural{"structural#single-writer", []string{"C10", "C12"}, okW, fmt.Sprintf("file-mutating calls in /repo: %v (expected exactly [%s])", writers, wantWriter), wpos})
	out = append(out, structural{"structural#no-ambient-reads", []string{"C08"}, len(ambient) == 0, fmt.Sprintf("calls reading environment, clock, working directory or randomness: %v", ambient), apos})
	out = append(out, structural{"structural#no-goroutines", []string{"C08", "C12"}, len(gos) == 0, fmt.Sprintf("go statements / channel operations: %v", gos), token.Position{}})
	out = append(out, structural{"structural#no-recursion", []string{"C12"}, len(recs) == 0, fmt.Sprintf("cycles in the static call graph: %v", recs), token.Position{}})
	out = append(out, structural{"structural#loops-terminate", []string{"C12"}, len(badLoops) == 0, fmt.Sprintf("loops that are neither range loops nor carry a decreases clause: %v", badLoops), token.Position{}})
	for _, rl := range w.mapRangeLoops() {
		name := fmt.Sprintf("structural#order-independent:%s#loop%d", FuncKey(rl.Fn), rl.Ordinal)
		detail := fmt.Sprintf("raw range over a map in %s (loop %d): %s", FuncKey(rl.Fn), rl.Ordinal, rl.Why)
		if rl.Class != "" {
			detail += " [criterion " + rl.Class + "]"
		}
		out = append(out, structural{name, []string{"C08"}, rl.Class != "", detail, w.Fset.Position(loopPos(rl.Head))})
	}
	// reports_all: a function that promises to report every violation never leaves a loop early
	for _, f := range w.repoFuncsSorted() {
		sp := w.SpecFor(f)
		if sp == nil || !sp.ReportsAll {
			continue
		}
		var early []string
		fns := []*ssa.Function{f}
		fns = append(fns, f.AnonFuncs...)
		// helpers without contract that f executes in place are part of f (a collecting loop may have been moved there)
		seenFn := map[*ssa.Function]bool{f: true}
		for i := 0; i < len(fns) && len(fns) < 64; i++ {
			for _, b := range fns[i].Blocks {
				for _, in := range b.Instrs {
					if c, ok := in.(*ssa.Call); ok {
						if callee := c.Call.StaticCallee(); callee != nil && !seenFn[callee] && w.inlinable(callee) {
							seenFn[callee] = true
							fns = append(fns, callee)
							fns = append(fns, callee.AnonFuncs...)
						}
					}
				}
			}
		}
		for _, g := range fns {
			for _, h := range g.Blocks {
				// h is a loop header if one of its predecessors is dominated by it
				var latches []*ssa.BasicBlock
				for _, p := range h.Preds {
					if h.Dominates(p) {
						latches = append(latches, p)
					}
				}
				if len(latches) == 0 {
					continue
				}
				// natural loop: blocks that reach a latch without passing through h
				in := map[*ssa.BasicBlock]bool{h: true}
				work := append([]*ssa.BasicBlock{}, latches...)
				for len(work) > 0 {
					b := work[len(work)-1]
					work = work[:len(work)-1]
					if in[b] {
						continue
					}
					in[b] = true
					work = append(work, b.Preds...)
				}
				for b := range in {
					if b == h {
						continue
					}
					for _, s := range b.Succs {
						if !in[s] {
							early = append(early, fmt.Sprintf("%s: block %d leaves the loop at block %d", FuncKey(g), b.Index, h.Index))
						}
					}
				}
			}
		}
		sort.Strings(early)
		out = append(out, structural{"structural#no-early-exit:" + FuncKey(f), sp.Props, len(early) == 0,
			fmt.Sprintf("loops of a function that reports every violation must run to completion: %v", early), w.Fset.Position(f.Pos())})
	}
	// value semantics of slices (A3/A4): a function must not write through a slice it received by value - neither by
	// storing to its elements nor by appending to a re-slice of it (append(xs[:0], ...) reuses the caller's array).
	// Contracts may declare such writes (`modifies <param>`); anything else would make the callers' proofs unsound,
	// so it is an obligation of every property whose functions live in the same package.
	pkgProps := map[string]map[string]bool{}
	for k, sp := range w.Specs {
		i := strings.Index(k, ":")
		if i < 0 || sp.Kind == "extern" {
			continue
		}
		if pkgProps[k[:i]] == nil {
			pkgProps[k[:i]] = map[string]bool{}
		}
		for _, p := range sp.Props {
			pkgProps[k[:i]][p] = true
		}
	}
	offences := map[string][]string{}
	offPos := map[string]token.Position{}
	for _, f := range w.repoFuncsSorted() {
		key := FuncKey(f)
		pk := key
		if i := strings.Index(key, ":"); i >= 0 {
			pk = key[:i]
		}
		top := f
		for top.Parent() != nil {
			top = top.Parent()
		}
		declared := w.declaredWrites(top)
		// a helper without contract that is only ever called statically is executed in place at its call sites: a write
		// through one of its parameters is judged there (the caller may well hand it a map or slice of its own)
		chk := func(v ssa.Value, onlyDirect, ptrIsForeign bool) string {
			src, par := foreignSource(v, declared, onlyDirect, ptrIsForeign)
			if par != nil && par.Parent() == f && f.Parent() == nil && w.InlineOnly(f) {
				return w.foreignAtCallers(f, par, ptrIsForeign, 0)
			}
			return src
		}
		for _, b := range f.Blocks {
			for _, in := range b.Instrs {
				if mu, ok := in.(*ssa.MapUpdate); ok {
					// a map received by value is the caller's map: writing an entry changes what the caller sees
					if _, isMap := mu.Map.Type().Underlying().(*types.Map); isMap {
						if src := chk(mu.Map, true, false); src != "" {
							offences[pk] = append(offences[pk], fmt.Sprintf("%s writes an entry of a map held by %s", key, src))
							offPos[pk] = w.Fset.Position(mu.Pos())
						}
					}
					continue
				}
				if st, ok := in.(*ssa.Store); ok {
					// a store to an element of a slice received by value (a parameter or a field of a by-value parameter)
					addr := st.Addr
					for {
						if fa, ok := addr.(*ssa.FieldAddr); ok {
							addr = fa.X
							continue
						}
						break
					}
					if ia, ok := addr.(*ssa.IndexAddr); ok {
						if _, isSlice := ia.X.Type().Underlying().(*types.Slice); isSlice {
							if src := chk(ia.X, true, false); src != "" {
								offences[pk] = append(offences[pk], fmt.Sprintf("%s writes an element of %s", key, src))
								offPos[pk] = w.Fset.Position(st.Pos())
							}
						}
					}
					continue
				}
				call, ok := in.(*ssa.Call)
				if !ok {
					continue
				}
				// sorting or copying into a slice received by value reorders / overwrites the caller's elements
				if callee := call.Call.StaticCallee(); callee != nil && len(call.Call.Args) > 0 {
					var target ssa.Value
					switch qualifiedName(callee) {
					case "sort.Strings", "sort.Ints", "sort.Float64s", "slices.Sort", "slices.SortFunc", "slices.SortStableFunc", "slices.Reverse":
						target = call.Call.Args[0]
					case "sort.Slice", "sort.SliceStable", "sort.Sort", "sort.Stable":
						target = call.Call.Args[0]
						if mi, ok := target.(*ssa.MakeInterface); ok {
							target = mi.X
						}
					}
					if target != nil {
						if _, isSlice := target.Type().Underlying().(*types.Slice); isSlice {
							if src := chk(target, true, false); src != "" {
								offences[pk] = append(offences[pk], fmt.Sprintf("%s sorts %s in place", key, src))
								offPos[pk] = w.Fset.Position(call.Pos())
							}
						}
					}
				}
				bi, ok := call.Call.Value.(*ssa.Builtin)
				if ok && bi.Name() == "delete" && len(call.Call.Args) > 0 {
					if src := chk(call.Call.Args[0], true, false); src != "" {
						offences[pk] = append(offences[pk], fmt.Sprintf("%s deletes an entry of a map held by %s", key, src))
						offPos[pk] = w.Fset.Position(call.Pos())
					}
					continue
				}
				if ok && bi.Name() == "copy" && len(call.Call.Args) > 0 {
					if src := chk(call.Call.Args[0], true, false); src != "" {
						offences[pk] = append(offences[pk], fmt.Sprintf("%s copies into %s", key, src))
						offPos[pk] = w.Fset.Position(call.Pos())
					}
					continue
				}
				if !ok || bi.Name() != "append" || len(call.Call.Args) == 0 {
					continue
				}
				if src := chk(call.Call.Args[0], false, true); src != "" {
					offences[pk] = append(offences[pk], fmt.Sprintf("%s appends to a re-slice of %s", key, src))
					offPos[pk] = w.Fset.Position(call.Pos())
				}
			}
		}
	}
	var pks []string
	for pk := range pkgProps {
		pks = append(pks, pk)
	}
	sort.Strings(pks)
	for _, pk := range pks {
		// value semantics is a side condition of every proof that passes slices around: the guard of a package that
		// serves any property carries all claimed properties (a contract may declare an intended write with `modifies`)
		if len(pkgProps[pk]) == 0 {
			continue
		}
		props := append([]string{}, allClaimed...)
		out = append(out, structural{"structural#slices-and-maps-received-by-value-are-not-written:" + pk, props, len(offences[pk]) == 0,
			fmt.Sprintf("writes through a slice or map the caller can see - an element store, a sort, a copy, an append to a re-slice (the elements behind the new length are overwritten in place), a map entry: %v", offences[pk]), offPos[pk]})
	}
	out = append(out, structural{"structural#globals-written-only-in-init", []string{"C08", "C12", "C05", "C11"}, len(globalWrites) == 0, fmt.Sprintf("writes to package-level variables outside init: %v", globalWrites), token.Position{}})
	return out
}

// StructuralUnit wraps the structural obligations as a verification unit.
func (w *World) StructuralUnit() *Unit {
	vc := NewVC(w, "structural")
	for _, s := range w.Structural() {
		goal := "(= 0 0)"
		if !s.OK {
			goal = "(= 0 1)"
		}
		vc.curPos = s.Pos
		if o := vc.oblige("structural", strings.TrimPrefix(s.Name, "structural#"), "", s.Props, "true", goal); o != nil {
			o.Name = s.Name
			o.Note = s.Detail
		}
	}
	return &Unit{Key: "structural", VC: vc}
}

var _ = types.Typ

// ---------------------------------------------------------------- order independence of raw map-range loops (C08)

// A raw `for k, v := range m` visits keys in an arbitrary order. Each such loop in /repo must be
// justified, with zero annotations, by one of the following (DESIGN 4, C08):
//
//	A  point-wise store: the body's only effects are dst[k] = e (index = the loop key) on maps
//	   that the body does not read, no early exit, only pure calls.  Stores at distinct keys commute.
//	A' as A with index = the loop value; then the executor emits the semantic obligation that
//	   the ranged map is injective (order:injective-values).
//	B  collect-then-sort: the body's only effect is X = append(X, e), no early exit, only pure calls,
//	   and the first use of X after the loop is sort.Slice / sort.SliceStable / sort.Strings.
//	   (Strictness of the order is the enclosing function's strictly_increasing postcondition.)
//	D  determined result: the enclosing function's contract is marked `deterministic` and govc proves that
//	   its postconditions admit at most one result for given inputs.
//
// Anything else is an order-dependence violation.
type rangeLoop struct {
	Fn      *ssa.Function
	Head    *ssa.BasicBlock
	Range   *ssa.Range
	Ordinal int
	Class   string
	Why     string
}

func (w *World) mapRangeLoops() []rangeLoop {
	var out []rangeLoop
	for _, f := range w.repoFuncsSorted() {
		fr := NewVC(w, "tmp").newFrame(f, nil)
		for h, li := range fr.loops {
			var rng *ssa.Range
			var next *ssa.Next
			for _, in := range h.Instrs {
				if nx, ok := in.(*ssa.Next); ok && !nx.IsString {
					next = nx
					rng, _ = nx.Iter.(*ssa.Range)
				}
			}
			if rng == nil {
				continue
			}
			if _, isMap := rng.X.Type().Underlying().(*types.Map); !isMap {
				continue
			}
			rl := rangeLoop{Fn: f, Head: h, Range: rng, Ordinal: li.ordinal}
			rl.Class, rl.Why = w.classifyRange(fr, li, rng, next)
			out = append(out, rl)
		}
	}
	sort.Slice(out, func(i, j int) bool {
		if FuncKey(out[i].Fn) != FuncKey(out[j].Fn) {
			return FuncKey(out[i].Fn) < FuncKey(out[j].Fn)
		}
		return out[i].Ordinal < out[j].Ordinal
	})
	return out
}

func (w *World) classifyRange(fr *Frame, li *loopInfo, rng *ssa.Range, next *ssa.Next) (string, string) {
	var keyV, valV ssa.Value
	for _, r := range *next.Referrers() {
		if ex, ok := r.(*ssa.Extract); ok {
			switch ex.Index {
			case 1:
				keyV = ex
			case 2:
				valV = ex
			}
		}
	}
	// early exit: an edge from the body to outside that is not the header's own exit
	for b := range li.body {
		if b == li.head {
			continue
		}
		for _, s := range b.Succs {
			if !li.body[s] {
				return w.detOr(fr, "the loop can be left early")
			}
		}
		if _, ok := b.Instrs[len(b.Instrs)-1].(*ssa.Return); ok {
			return w.detOr(fr, "the loop body returns")
		}
	}
	var stores, appends int
	var appendCalls []*ssa.Call
	var appendTarget *ssa.Phi
	var appendAlloc *ssa.Alloc
	valueIndexed := false
	for b := range li.body {
		for _, in := range b.Instrs {
			switch in := in.(type) {
			case *ssa.MapUpdate:
				if in.Key == keyV {
					stores++
				} else if in.Key == valV {
					stores++
					valueIndexed = true
				} else {
					return w.detOr(fr, "map store at an index that is not the loop key")
				}
			case *ssa.Store:
				var roots []ssa.Value
				rootsOf(in.Addr, &roots, 0)
				local := len(roots) > 0
				for _, r := range roots {
					a, isAlloc := r.(*ssa.Alloc)
					if !isAlloc || !li.body[a.Block()] {
						local = false
					}
				}
				if local {
					continue // a temporary allocated inside the iteration (e.g. the argument array of a variadic call)
				}
				// x = append(x, e) on an address-taken / captured variable
				if a, ok := in.Addr.(*ssa.Alloc); ok {
					if c, ok := in.Val.(*ssa.Call); ok {
						if bi, ok := c.Call.Value.(*ssa.Builtin); ok && bi.Name() == "append" {
							if ld, ok := c.Call.Args[0].(*ssa.UnOp); ok && ld.X == a {
								appendAlloc = a
								continue
							}
						}
					}
				}
				return w.detOr(fr, "the loop body writes memory")
			case *ssa.Call:
				if bi, ok := in.Call.Value.(*ssa.Builtin); ok {
					if bi.Name() == "append" {
						appends++
						appendCalls = append(appendCalls, in)
						if phi, ok := in.Call.Args[0].(*ssa.Phi); ok {
							appendTarget = phi
						}
						continue
					}
					if bi.Name() == "len" || bi.Name() == "cap" {
						continue
					}
					return w.detOr(fr, "builtin "+bi.Name()+" in the loop body")
				}
				callee := in.Call.StaticCallee()
				if callee == nil {
					return w.detOr(fr, "dynamic call in the loop body")
				}
				sp := w.SpecFor(callee)
				if (sp != nil && sp.Pure) || (!IsRepo(callee) && w.pureExternal(callee)) || qualifiedName(callee) == RepoModule+"/internal/pkg/regex.Match" {
					continue
				}
				return w.detOr(fr, "call to "+qualifiedName(callee)+", which is not known to be pure")
			case *ssa.Defer, *ssa.Go, *ssa.Panic:
				return w.detOr(fr, "defer/go/panic in the loop body")
			}
		}
	}
	switch {
	case stores > 0 && appends == 0:
		if valueIndexed {
			w.RangeNeedsInjective[rng] = true
			return "A'", "point-wise map stores indexed by the loop value; injectivity of the ranged map is a semantic obligation"
		}
		return "A", "point-wise map stores at the loop key commute"
	case stores == 0 && appends > 0:
		if appendAlloc != nil {
			// sorted after the loop: a sort call outside the loop on a load of the same variable
			for _, b := range fr.fn.Blocks {
				if li.body[b] {
					continue
				}
				for _, in := range b.Instrs {
					c, ok := in.(*ssa.Call)
					if !ok {
						continue
					}
					callee := c.Call.StaticCallee()
					if callee == nil {
						continue
					}
					q := qualifiedName(callee)
					if q != "sort.Slice" && q != "sort.SliceStable" && q != "sort.Strings" {
						continue
					}
					arg := c.Call.Args[0]
					if mi, ok := arg.(*ssa.MakeInterface); ok {
						arg = mi.X
					}
					if ld, ok := arg.(*ssa.UnOp); ok && ld.X == appendAlloc {
						if why := sortNotTotal(c, appendCalls, keyV); why != "" {
							return w.detOr(fr, why)
						}
						return "B", "elements are collected and then sorted, by an order that is total on them, before any other use"
					}
				}
			}
			return w.detOr(fr, "collected slice is used unsorted after the loop")
		}
		if appendTarget == nil {
			return w.detOr(fr, "append to something that is not a loop-carried slice variable")
		}
		// the first use of the collected slice after the loop must be a sort
		if sc := w.sortedAfter(li, appendTarget); sc != nil {
			if why := sortNotTotal(sc, appendCalls, keyV); why != "" {
				return w.detOr(fr, why)
			}
			return "B", "elements are collected and then sorted, by an order that is total on them, before any other use"
		}
		return w.detOr(fr, "collected slice is used unsorted after the loop")
	case stores == 0 && appends == 0:
		return "A", "the loop body has no effect"
	}
	return w.detOr(fr, "mixed map stores and appends")
}

func (w *World) detOr(fr *Frame, why string) (string, string) {
	if fr.spec != nil && fr.spec.Deterministic {
		return "D", why + "; but the function's contract is proved to determine its result"
	}
	return "", why
}

// sortedAfter reports whether the value of the loop-carried slice, once the loop exits, flows (possibly through
// one store into a captured variable) into sort.Slice / sort.SliceStable / sort.Strings before any other use.
func (w *World) sortedAfter(li *loopInfo, phi *ssa.Phi) *ssa.Call {
	uses := *phi.Referrers()
	var sorted *ssa.Call
	for _, u := range uses {
		if li.body[u.Block()] {
			continue
		}
		switch u := u.(type) {
		case *ssa.DebugRef:
		case *ssa.MakeInterface:
			for _, r := range *u.Referrers() {
				if c, ok := r.(*ssa.Call); ok {
					if callee := c.Call.StaticCallee(); callee != nil {
						if q := qualifiedName(callee); q == "sort.Slice" || q == "sort.SliceStable" {
							sorted = c
						}
					}
				}
			}
		case *ssa.Store:
			// stored into a captured variable: look for the sort on a load of that variable in the same block
			for _, in := range u.Block().Instrs {
				if c, ok := in.(*ssa.Call); ok {
					if callee := c.Call.StaticCallee(); callee != nil {
						if q := qualifiedName(callee); q == "sort.Slice" || q == "sort.SliceStable" || q == "sort.Strings" {
							sorted = c
						}
					}
				}
			}
		case *ssa.Call:
			if callee := u.Call.StaticCallee(); callee != nil && qualifiedName(callee) == "sort.Strings" {
				sorted = u
			}
		}
	}
	return sorted
}

var allClaimed = []string{"C02", "C03", "C04", "C05", "C06", "C07", "C08", "C09", "C10", "C11", "C12", "C13", "C14", "C15", "C16", "C18"}

// resliceOfForeign reports (as a description, "" = no) whether v derives from a re-slice s[a:b] of a slice that is
// visible outside the function: a parameter, a field of a by-value parameter, or memory reached through a pointer.
func resliceOfForeign(v ssa.Value, declared func(*ssa.Parameter) bool, onlyDirect bool, ptrIsForeign bool) string {
	d, _ := foreignSource(v, declared, onlyDirect, ptrIsForeign)
	return d
}

// foreignSource is resliceOfForeign that also returns the parameter the value derives from (nil for other sources).
func foreignSource(v ssa.Value, declared func(*ssa.Parameter) bool, onlyDirect bool, ptrIsForeign bool) (string, *ssa.Parameter) {
	var par *ssa.Parameter
	d := foreignSourceWalk(v, declared, onlyDirect, ptrIsForeign, &par)
	if d == "" {
		par = nil
	}
	return d, par
}

func foreignSourceWalk(v ssa.Value, declared func(*ssa.Parameter) bool, onlyDirect bool, ptrIsForeign bool, par **ssa.Parameter) string {
	seen := map[ssa.Value]bool{}
	var walk func(v ssa.Value, depth int) string
	var foreign func(v ssa.Value, depth int) string
	foreign = func(v ssa.Value, depth int) string {
		if depth > 20 || seen[v] {
			return ""
		}
		seen[v] = true
		switch x := v.(type) {
		case *ssa.Parameter:
			if declared(x) {
				return ""
			}
			*par = x
			return "parameter " + x.Name()
		case *ssa.FreeVar:
			return "captured variable " + x.Name()
		case *ssa.Field:
			return foreign(x.X, depth+1)
		case *ssa.UnOp:
			if x.Op == token.MUL {
				// a load: from a local variable (possibly the copy of a by-value parameter), from a field or an element
				// of such a variable, or through a pointer
				addr := x.X
				for {
					if fa, ok := addr.(*ssa.FieldAddr); ok {
						addr = fa.X
						continue
					}
					break
				}
				switch a := addr.(type) {
				case *ssa.Alloc:
					for _, r := range *a.Referrers() {
						if st, ok := r.(*ssa.Store); ok && st.Addr == a {
							if d := foreign(st.Val, depth+1); d != "" {
								return d
							}
						}
					}
					return ""
				case *ssa.IndexAddr:
					return foreign(a.X, depth+1)
				default:
					if ptrIsForeign {
						return "memory reached through a pointer"
					}
					return ""
				}
			}
		case *ssa.Slice:
			return foreign(x.X, depth+1)
		case *ssa.ChangeType:
			return foreign(x.X, depth+1)
		case *ssa.Phi:
			for _, e := range x.Edges {
				if d := foreign(e, depth+1); d != "" {
					return d
				}
			}
		case *ssa.Extract, *ssa.Lookup, *ssa.Index:
			if ptrIsForeign {
				return "an element of a composite value"
			}
		}
		return ""
	}
	if onlyDirect {
		return foreign(v, 0)
	}
	walked := map[ssa.Value]bool{}
	walk = func(v ssa.Value, depth int) string {
		if depth > 20 || walked[v] {
			return ""
		}
		walked[v] = true
		switch x := v.(type) {
		case *ssa.Slice:
			if _, isSlice := x.X.Type().Underlying().(*types.Slice); isSlice {
				if d := foreign(x.X, 0); d != "" {
					return d
				}
			}
			return walk(x.X, depth+1)
		case *ssa.ChangeType:
			return walk(x.X, depth+1)
		case *ssa.Phi:
			for _, e := range x.Edges {
				if d := walk(e, depth+1); d != "" {
					return d
				}
			}
		case *ssa.UnOp:
			if a, ok := x.X.(*ssa.Alloc); ok && x.Op == token.MUL {
				for _, r := range *a.Referrers() {
					if st, ok := r.(*ssa.Store); ok && st.Addr == a {
						if d := walk(st.Val, depth+1); d != "" {
							return d
						}
					}
				}
			}
		case *ssa.Call:
			// x = append(x, ...) chains: follow the destination of an inner append
			if bi, ok := x.Call.Value.(*ssa.Builtin); ok && bi.Name() == "append" && len(x.Call.Args) > 0 {
				return walk(x.Call.Args[0], depth+1)
			}
		}
		return ""
	}
	return walk(v, 0)
}

// declaredWrites: the parameters whose referents the contract of top declares as written (`modifies <param>...`).
func (w *World) declaredWrites(top *ssa.Function) func(*ssa.Parameter) bool {
	sp := w.SpecFor(top)
	return func(p *ssa.Parameter) bool {
		if sp == nil {
			return false
		}
		for _, m := range sp.Modifies {
			if rootIdent(m) == p.Name() || w.renamed(top, rootIdent(m)) == p.Name() {
				return true
			}
		}
		return false
	}
}

// foreignAtCallers judges a write through parameter par of the statically-only-called helper f at f's call sites: the
// description of the first call site that hands f something its own caller can see ("" if every call site passes a value
// of its own). Helpers calling helpers are followed up to four levels.
func (w *World) foreignAtCallers(f *ssa.Function, par *ssa.Parameter, ptrIsForeign bool, depth int) string {
	idx := -1
	for i, p := range f.Params {
		if p == par {
			idx = i
		}
	}
	if idx < 0 || depth > 4 {
		return "parameter " + par.Name()
	}
	for _, g := range w.repoFuncsSorted() {
		top := g
		for top.Parent() != nil {
			top = top.Parent()
		}
		for _, b := range g.Blocks {
			for _, in := range b.Instrs {
				ci, ok := in.(ssa.CallInstruction)
				if !ok || ci.Common().IsInvoke() || ci.Common().StaticCallee() != f || idx >= len(ci.Common().Args) {
					continue
				}
				src, p2 := foreignSource(ci.Common().Args[idx], w.declaredWrites(top), true, ptrIsForeign)
				if src == "" {
					continue
				}
				if p2 != nil && p2.Parent() == g && g.Parent() == nil && w.InlineOnly(g) {
					src = w.foreignAtCallers(g, p2, ptrIsForeign, depth+1)
					if src == "" {
						continue
					}
				}
				return fmt.Sprintf("%s (handed to %s by %s)", src, f.Name(), FuncKey(g))
			}
		}
	}
	return ""
}

// sortNotTotal explains ("" = fine) why sorting the elements collected from a map range does not determine their order:
// the comparison must be a strict order that tells any two collected elements apart. Accepted: sort.Strings; a
// comparison `s[i] < s[j]` / `>` of whole elements of a basic type (elements that compare equal are identical); a
// comparison `s[i].F < s[j].F` of a field path F where every collected element carries the loop key (distinct per
// iteration) in F. Anything else (a comparison by priority only, say) leaves ties in map-iteration order.
func sortNotTotal(sortCall *ssa.Call, appends []*ssa.Call, keyV ssa.Value) string {
	callee := sortCall.Call.StaticCallee()
	if callee == nil {
		return "collected slice is sorted by an unknown function"
	}
	if qualifiedName(callee) == "sort.Strings" {
		return ""
	}
	if len(sortCall.Call.Args) < 2 {
		return "sort call without comparison function"
	}
	var less *ssa.Function
	switch f := sortCall.Call.Args[1].(type) {
	case *ssa.MakeClosure:
		less, _ = f.Fn.(*ssa.Function)
	case *ssa.Function:
		less = f
	}
	if less == nil || len(less.Params) != 2 {
		return "the comparison function of the sort is not a function literal"
	}
	var ret *ssa.Return
	for _, b := range less.Blocks {
		for _, in := range b.Instrs {
			if r, ok := in.(*ssa.Return); ok {
				if ret != nil {
					return "the comparison function of the sort has more than one return"
				}
				ret = r
			}
		}
	}
	if ret == nil || len(ret.Results) != 1 {
		return "the comparison function of the sort has no single result"
	}
	cmp, ok := ret.Results[0].(*ssa.BinOp)
	if !ok || (cmp.Op != token.LSS && cmp.Op != token.GTR) {
		return "the comparison function of the sort is not a single < or > comparison: ties would keep map-iteration order"
	}
	// operand: load of (field path of) slice[param]
	pathOf := func(v ssa.Value, par *ssa.Parameter) ([]int, bool) {
		ld, ok := v.(*ssa.UnOp)
		if !ok || ld.Op != token.MUL {
			return nil, false
		}
		var path []int
		addr := ld.X
		for {
			if fa, ok := addr.(*ssa.FieldAddr); ok {
				path = append([]int{fa.Field}, path...)
				addr = fa.X
				continue
			}
			break
		}
		ia, ok := addr.(*ssa.IndexAddr)
		if !ok || ia.Index != ssa.Value(par) {
			return nil, false
		}
		return path, true
	}
	px, okx := pathOf(cmp.X, less.Params[0])
	py, oky := pathOf(cmp.Y, less.Params[1])
	if !okx || !oky || fmt.Sprint(px) != fmt.Sprint(py) {
		return "the comparison function of the sort does not compare the same component of its two elements"
	}
	if !basicOrBasicTypeParam(cmp.X.Type()) {
		return "the comparison function of the sort compares a non-basic component"
	}
	if len(px) == 0 {
		return "" // whole elements of a basic type: equal elements are indistinguishable
	}
	if keyV == nil {
		return "the sort compares a field, but the loop does not use the map key"
	}
	strip := func(v ssa.Value) ssa.Value {
		for {
			switch x := v.(type) {
			case *ssa.ChangeType:
				v = x.X
				continue
			case *ssa.Convert:
				v = x.X
				continue
			}
			return v
		}
	}
	for _, ac := range appends {
		if len(ac.Call.Args) != 2 {
			return "append of something other than single elements"
		}
		// the variadic argument: a slice of a fresh one-element array holding the element
		sl, ok := ac.Call.Args[1].(*ssa.Slice)
		if !ok {
			return "append of a whole slice"
		}
		arr, ok := sl.X.(*ssa.Alloc)
		if !ok {
			return "append of a whole slice"
		}
		var elem ssa.Value
		n := 0
		for _, r := range *arr.Referrers() {
			if ia, ok := r.(*ssa.IndexAddr); ok {
				for _, r2 := range *ia.Referrers() {
					if st, ok := r2.(*ssa.Store); ok && st.Addr == ia {
						elem = st.Val
						n++
					}
				}
			}
		}
		if n != 1 || elem == nil {
			return "append of more than one element per call"
		}
		// the element: a struct built in a local variable whose field at the compared path is the loop key
		ld, ok := elem.(*ssa.UnOp)
		if !ok || ld.Op != token.MUL {
			return "the collected element is not a struct literal carrying the map key in the compared field"
		}
		lit, ok := ld.X.(*ssa.Alloc)
		if !ok {
			return "the collected element is not a struct literal carrying the map key in the compared field"
		}
		found := false
		for _, r := range *lit.Referrers() {
			fa, ok := r.(*ssa.FieldAddr)
			if !ok || len(px) != 1 || fa.Field != px[0] {
				continue
			}
			for _, r2 := range *fa.Referrers() {
				if st, ok := r2.(*ssa.Store); ok && st.Addr == fa {
					if strip(st.Val) == strip(keyV) {
						found = true
					} else {
						return "the compared field of a collected element is not the map key: ties would keep map-iteration order"
					}
				}
			}
		}
		if !found {
			return "the compared field of a collected element is not the map key: ties would keep map-iteration order"
		}
	}
	return ""
}

// basicOrBasicTypeParam: a basic type, or a type parameter all of whose constraint terms have a basic underlying type.
func basicOrBasicTypeParam(t types.Type) bool {
	if _, ok := t.Underlying().(*types.Basic); ok {
		return true
	}
	tp, ok := t.(*types.TypeParam)
	if !ok {
		return false
	}
	iface, ok := tp.Constraint().Underlying().(*types.Interface)
	if !ok || iface.NumEmbeddeds() == 0 {
		return false
	}
	for i := 0; i < iface.NumEmbeddeds(); i++ {
		switch e := iface.EmbeddedType(i).(type) {
		case *types.Union:
			for j := 0; j < e.Len(); j++ {
				if _, ok := e.Term(j).Type().Underlying().(*types.Basic); !ok {
					return false
				}
			}
		default:
			if _, ok := e.Underlying().(*types.Basic); !ok {
				return false
			}
		}
	}
	return true
}

// inlineOwners: the functions verified on their own in whose bodies f is executed - f itself unless f is a helper without
// contract that is only ever called statically, in which case the owners of its callers (closures count as their parent).
func (w *World) inlineOwners(f *ssa.Function, depth int) []*ssa.Function {
	top := f
	for top.Parent() != nil {
		top = top.Parent()
	}
	if depth > 4 || !w.InlineOnly(top) {
		return []*ssa.Function{f}
	}
	seen := map[*ssa.Function]bool{}
	var out []*ssa.Function
	for _, g := range w.repoFuncsSorted() {
		for _, b := range g.Blocks {
			for _, in := range b.Instrs {
				ci, ok := in.(ssa.CallInstruction)
				if !ok || ci.Common().IsInvoke() || ci.Common().StaticCallee() != top {
					continue
				}
				for _, o := range w.inlineOwners(g, depth+1) {
					if !seen[o] {
						seen[o] = true
						out = append(out, o)
					}
				}
			}
		}
	}
	if len(out) == 0 {
		return []*ssa.Function{f}
	}
	return out
}
