package engine

import (
	"encoding/json"
	"fmt"
	"go/ast"
	"go/token"
	"go/types"
	"os"
	"path/filepath"
	"sort"
	"strings"

	"govc/internal/spec"

	"golang.org/x/tools/go/packages"
	"golang.org/x/tools/go/ssa"
	"golang.org/x/tools/go/ssa/ssautil"
)

const RepoModule = "github.com/gontainer/gontainer"

// World is the loaded program plus all contracts.
type World struct {
	Dir                 string
	Fset                *token.FileSet
	Pkgs                []*packages.Package
	Prog                *ssa.Program
	Sorts               *Sorts
	Funcs               map[string]*ssa.Function  // qualified key -> function (repo, non-generated)
	Specs               map[string]*spec.FuncSpec // qualified key -> contract
	SpecFns             map[string]*spec.SpecFunc // name (pkg-qualified and bare) -> spec function
	Axioms              []*spec.Axiom
	Lemmas              []*spec.Lemma
	SortDs              []*spec.SortDecl
	Globals             map[string][]*spec.Global     // package path -> global invariants
	FuncGlobals         map[*ssa.Global]*ssa.Function // package-level func variables bound once to a function
	Ghosts              map[string]*spec.Ghost
	RangeNeedsInjective map[*ssa.Range]bool // criterion A' of C08: the ranged map must be injective
	PkgByPath           map[string]*packages.Package
	GlobalDecls         []string
	Regexes             map[*ssa.Global]string // global *regexp.Regexp -> constant pattern
	SpecErrs            []string
	specFnDeclared      map[string]bool
	ContractFiles       []string
	mayEffect           map[*ssa.Function]int        // memo: 1 = no, 2 = yes, 3 = in progress
	slots      map[*ssa.Function]int
	inlineOnly          map[*ssa.Function]int        // memo: 1 = no, 2 = yes
	ifaceNames          map[string]map[string]bool   // package path -> method names of the interface types it mentions
	Renames             map[string]map[string]string // top-level function key -> (name used in the contracts -> current name)
}

func shortPath(p string) string {
	if !inRepoPath(p) {
		return p
	}
	return strings.TrimPrefix(strings.TrimPrefix(p, RepoModule), "/")
}

// inRepoPath reports whether a package path belongs to the module under verification (and not to a module whose
// path merely starts with the same characters, such as gontainer-helpers).
func inRepoPath(p string) bool {
	return p == RepoModule || strings.HasPrefix(p, RepoModule+"/")
}

// FuncKey returns the contract key of an SSA function: `pkg:Name`, `pkg:(*T).Name`, `pkg:Parent$1`.
func FuncKey(f *ssa.Function) string {
	if f == nil {
		return "?"
	}
	if o := f.Origin(); o != nil {
		f = o
	}
	if f.Parent() != nil {
		// anonymous function: name is like Parent$1
		return FuncKey(f.Parent()) + strings.TrimPrefix(f.Name(), f.Parent().Name())
	}
	pkg := ""
	if f.Pkg != nil {
		pkg = f.Pkg.Pkg.Path()
	} else if f.Object() != nil && f.Object().Pkg() != nil {
		pkg = f.Object().Pkg().Path()
	}
	name := f.Name()
	if recv := f.Signature.Recv(); recv != nil {
		rt := recv.Type()
		star := ""
		if p, ok := rt.(*types.Pointer); ok {
			star = "*"
			rt = p.Elem()
		}
		tn := "?"
		if n, ok := types.Unalias(rt).(*types.Named); ok {
			tn = n.Obj().Name()
		}
		name = "(" + star + tn + ")." + f.Name()
	}
	return shortPath(pkg) + ":" + name
}

// Load loads /repo (current working tree) with the verif tag and parses all contracts.
func Load(dir string, assumedDir string) (*World, error) {
	fset := token.NewFileSet()
	cfg := &packages.Config{
		Mode:       packages.LoadAllSyntax,
		Dir:        dir,
		Fset:       fset,
		BuildFlags: []string{"-tags=verif"},
		Env:        append(os.Environ(), "GOFLAGS=-mod=mod", "GOPROXY=off", "GOSUMDB=off", "GOTOOLCHAIN=local"),
	}
	pkgs, err := packages.Load(cfg, "./...")
	if err != nil {
		return nil, err
	}
	nerr := 0
	packages.Visit(pkgs, nil, func(p *packages.Package) {
		for _, e := range p.Errors {
			if inRepoPath(p.PkgPath) {
				fmt.Fprintf(os.Stderr, "load error: %s: %v\n", p.PkgPath, e)
				nerr++
			}
		}
	})
	if nerr > 0 {
		return nil, fmt.Errorf("%d load errors in %s", nerr, dir)
	}
	prog, _ := ssautil.AllPackages(pkgs, ssa.InstantiateGenerics|ssa.GlobalDebug)
	prog.Build()
	w := &World{Dir: dir, Fset: fset, Pkgs: pkgs, Prog: prog, Sorts: NewSorts(),
		Funcs: map[string]*ssa.Function{}, Specs: map[string]*spec.FuncSpec{}, SpecFns: map[string]*spec.SpecFunc{},
		PkgByPath: map[string]*packages.Package{}, Regexes: map[*ssa.Global]string{}, specFnDeclared: map[string]bool{},
		Globals: map[string][]*spec.Global{}, FuncGlobals: map[*ssa.Global]*ssa.Function{}, RangeNeedsInjective: map[*ssa.Range]bool{}, Ghosts: map[string]*spec.Ghost{}}
	packages.Visit(pkgs, nil, func(p *packages.Package) { w.PkgByPath[p.PkgPath] = p })
	for _, p := range pkgs {
		if strings.HasSuffix(p.PkgPath, "/internal/gontainer") {
			continue // generated composition root
		}
		sp := prog.Package(p.Types)
		if sp == nil {
			continue
		}
		for _, m := range sp.Members {
			switch m := m.(type) {
			case *ssa.Function:
				w.addFunc(m)
			case *ssa.Type:
				for _, t := range []types.Type{m.Type(), types.NewPointer(m.Type())} {
					ms := prog.MethodSets.MethodSet(t)
					for i := 0; i < ms.Len(); i++ {
						if f := prog.MethodValue(ms.At(i)); f != nil && f.Pkg == sp && f.Synthetic == "" {
							w.addFunc(f)
						}
					}
				}
			}
		}
	}
	// contracts in /repo (guarded files) and assumed contracts in /verif
	for _, p := range pkgs {
		for i, f := range p.Syntax {
			fn := p.CompiledGoFiles[i]
			if filepath.Base(fn) != "contracts_verif.go" {
				continue
			}
			w.ContractFiles = append(w.ContractFiles, fn)
			lines := contractLines(fset, f)
			sf, err := spec.ParseLines(p.PkgPath, fn, lines)
			if err != nil {
				return nil, fmt.Errorf("contract parse error: %v", err)
			}
			w.addSpecFile(sf)
		}
	}
	if assumedDir != "" {
		files, _ := filepath.Glob(filepath.Join(assumedDir, "*.spec"))
		sort.Strings(files)
		for _, fn := range files {
			data, err := os.ReadFile(fn)
			if err != nil {
				return nil, err
			}
			var lines []spec.Line
			for i, l := range strings.Split(string(data), "\n") {
				t := strings.TrimSpace(l)
				if strings.HasPrefix(t, "#") || t == "" {
					continue
				}
				lines = append(lines, spec.Line{Text: l, Pos: spec.Position{File: fn, Line: i + 1}})
			}
			sf, err := spec.ParseLines("", fn, lines)
			if err != nil {
				return nil, fmt.Errorf("assumed contract parse error: %v", err)
			}
			w.addSpecFile(sf)
		}
	}
	w.findRegexGlobals()
	return w, nil
}

func (w *World) addFunc(f *ssa.Function) {
	if f.Blocks == nil {
		return
	}
	w.Funcs[FuncKey(f)] = f
	for _, a := range f.AnonFuncs {
		w.addFunc(a)
	}
}

func contractLines(fset *token.FileSet, f *ast.File) []spec.Line {
	var out []spec.Line
	for _, cg := range f.Comments {
		for _, c := range cg.List {
			t := c.Text
			if strings.HasPrefix(t, "//@") {
				pos := fset.Position(c.Pos())
				out = append(out, spec.Line{Text: strings.TrimPrefix(t, "//@"), Pos: spec.Position{File: pos.Filename, Line: pos.Line}})
			}
		}
	}
	return out
}

func (w *World) addSpecFile(sf *spec.File) {
	pk := shortPath(sf.Pkg)
	for _, f := range sf.Funcs {
		key := f.Key
		if f.Kind == "extern" || (f.Kind == "interface" && sf.Pkg == "") {
			// fully qualified by the author: "strings.HasPrefix", "regexp.(*Regexp).MatchString"
		} else {
			key = pk + ":" + f.Key
		}
		if _, dup := w.Specs[key]; dup {
			w.SpecErrs = append(w.SpecErrs, fmt.Sprintf("%s: duplicate contract for %s", f.Pos, key))
		}
		w.Specs[key] = f
	}
	for _, s := range sf.Specs {
		w.SpecFns[s.Name] = s
	}
	w.Axioms = append(w.Axioms, sf.Axioms...)
	w.Lemmas = append(w.Lemmas, sf.Lemmas...)
	w.SortDs = append(w.SortDs, sf.Sorts...)
	for _, g := range sf.Ghosts {
		w.Ghosts[g.Name] = g
	}
	for _, g := range sf.Globals {
		w.Globals[g.Pkg] = append(w.Globals[g.Pkg], g)
	}
}

// SpecFor finds the contract for a callee.
func (w *World) SpecFor(f *ssa.Function) *spec.FuncSpec {
	if f == nil {
		return nil
	}
	if s, ok := w.Specs[FuncKey(f)]; ok {
		return s
	}
	// externals: keyed as "pkgpath.Name" or "pkgpath.(*T).Name"
	k := FuncKey(f)
	if i := strings.Index(k, ":"); i >= 0 {
		full := f
		if o := f.Origin(); o != nil {
			full = o
		}
		pkg := ""
		if full.Pkg != nil {
			pkg = full.Pkg.Pkg.Path()
		} else if full.Object() != nil && full.Object().Pkg() != nil {
			pkg = full.Object().Pkg().Path()
		}
		if s, ok := w.Specs[pkg+"."+k[i+1:]]; ok {
			return s
		}
	}
	return nil
}

// IsRepo reports whether f is defined in the repository under verification.
func IsRepo(f *ssa.Function) bool {
	if f == nil {
		return false
	}
	if o := f.Origin(); o != nil {
		f = o
	}
	for f.Parent() != nil {
		f = f.Parent()
	}
	var p *types.Package
	if f.Pkg != nil {
		p = f.Pkg.Pkg
	} else if f.Object() != nil {
		p = f.Object().Pkg()
	}
	return p != nil && inRepoPath(p.Path())
}

// findRegexGlobals constant-folds package-level *regexp.Regexp variables to their pattern.
func (w *World) findRegexGlobals() {
	var all []*ssa.Package
	for _, sp := range w.Prog.AllPackages() {
		all = append(all, sp)
	}
	for _, sp := range all {
		if sp == nil {
			continue
		}
		init := sp.Func("init")
		if init == nil {
			continue
		}
		for _, b := range init.Blocks {
			for _, in := range b.Instrs {
				st, ok := in.(*ssa.Store)
				if !ok {
					continue
				}
				g, ok := st.Addr.(*ssa.Global)
				if !ok {
					continue
				}
				if fn, isFn := st.Val.(*ssa.Function); isFn {
					w.FuncGlobals[g] = fn
					continue
				}
				if !isRegexpPtr(g.Type().(*types.Pointer).Elem()) {
					continue
				}
				if pat, ok := w.foldRegex(st.Val, 0, nil); ok {
					w.Regexes[g] = pat
				}
			}
		}
	}
}

func isRegexpPtr(t types.Type) bool {
	p, ok := t.(*types.Pointer)
	if !ok {
		return false
	}
	n, ok := p.Elem().(*types.Named)
	return ok && n.Obj().Pkg() != nil && n.Obj().Pkg().Path() == "regexp" && n.Obj().Name() == "Regexp"
}

// foldRegex evaluates v (a *regexp.Regexp valued SSA expression over constants) to its pattern.
func (w *World) foldRegex(v ssa.Value, depth int, env map[ssa.Value]string) (string, bool) {
	if depth > 8 {
		return "", false
	}
	c, ok := v.(*ssa.Call)
	if !ok {
		return "", false
	}
	callee := c.Call.StaticCallee()
	if callee == nil {
		return "", false
	}
	if callee.Pkg != nil && callee.Pkg.Pkg.Path() == "regexp" && (callee.Name() == "MustCompile") {
		return w.foldString(c.Call.Args[0], depth+1, env)
	}
	if IsRepo(callee) && len(callee.Blocks) == 1 {
		// straight-line wrapper such as regex.MustCompileAz: evaluate its return expression
		env2 := map[ssa.Value]string{}
		for i, p := range callee.Params {
			s, ok := w.foldString(c.Call.Args[i], depth+1, env)
			if !ok {
				return "", false
			}
			env2[p] = s
		}
		blk := callee.Blocks[0]
		if ret, ok := blk.Instrs[len(blk.Instrs)-1].(*ssa.Return); ok && len(ret.Results) == 1 {
			return w.foldRegex(ret.Results[0], depth+1, env2)
		}
	}
	return "", false
}

func (w *World) foldString(v ssa.Value, depth int, env map[ssa.Value]string) (string, bool) {
	if depth > 12 {
		return "", false
	}
	if s, ok := env[v]; ok {
		return s, true
	}
	switch v := v.(type) {
	case *ssa.Const:
		if v.Value != nil && v.Value.Kind().String() == "String" {
			return constString(v), true
		}
	case *ssa.BinOp:
		if v.Op == token.ADD {
			a, ok1 := w.foldString(v.X, depth+1, env)
			b, ok2 := w.foldString(v.Y, depth+1, env)
			return a + b, ok1 && ok2
		}
	}
	return "", false
}

// ifaceSpecKey is the contract key of an interface method call.
func ifaceSpecKey(c *ssa.CallCommon) (string, bool) {
	n, ok := types.Unalias(c.Value.Type()).(*types.Named)
	if !ok || n.Obj().Pkg() == nil {
		return "", false
	}
	key := shortPath(n.Obj().Pkg().Path()) + ":" + n.Obj().Name() + "." + c.Method.Name()
	if !inRepoPath(n.Obj().Pkg().Path()) {
		key = n.Obj().Pkg().Path() + "." + n.Obj().Name() + "." + c.Method.Name()
	}
	return key, true
}

// MayEffect reports whether running f can append events to the effect trace: its body, the bodies of the
// repository functions it calls statically and of the closures it creates contain a call of an interface method
// or external function declared `effect`. (Calls of unknown function values and of interface methods without a
// contract never log events; the trace speaks about declared effects only.)
func (w *World) MayEffect(f *ssa.Function) bool {
	if w.mayEffect == nil {
		w.mayEffect = map[*ssa.Function]int{}
	}
	switch w.mayEffect[f] {
	case 1, 3:
		return false
	case 2:
		return true
	}
	w.mayEffect[f] = 3
	res := false
	if sp := w.SpecFor(f); sp != nil && sp.Effect {
		res = true
	}
	if !res {
		res = w.bodyMayEffect(f)
	}
	if res {
		w.mayEffect[f] = 2
	} else {
		w.mayEffect[f] = 1
	}
	return res
}

// inlinable: a non-generated function of the repository with a body and without contract, not recursive by
// construction (the structural obligation no-recursion guards that; callClosure refuses re-entrant inlining).
func (w *World) inlinable(f *ssa.Function) bool {
	if f == nil || f.Blocks == nil || !IsRepo(f) || f.Parent() != nil {
		return false
	}
	if o := f.Origin(); o != nil {
		if w.Funcs[FuncKey(o)] == nil {
			return false
		}
	} else if w.Funcs[FuncKey(f)] != f {
		return false
	}
	if strings.HasPrefix(f.Name(), "init") {
		return false
	}
	return w.SpecFor(f) == nil
}

// loopSlots: how many loop numbers the body of f takes when it is executed in place (its loops, its maps.Iterate call
// sites and, recursively, those of the helpers it executes in place); 0 if f is not executed in place.
func (w *World) loopSlots(f *ssa.Function, depth int) int {
	if f == nil || depth > 4 || isMapsIterate(f) {
		return 0
	}
	if sp := w.SpecFor(f); !(w.inlinable(f) || (sp != nil && sp.Inline && f.Blocks != nil && f.Parent() == nil)) {
		return 0
	}
	if w.slots == nil {
		w.slots = map[*ssa.Function]int{}
	}
	if n, ok := w.slots[f]; ok {
		return n
	}
	w.slots[f] = 0 // recursion guard
	n := 0
	heads := map[*ssa.BasicBlock]bool{}
	for _, b := range f.Blocks {
		for _, s := range b.Succs {
			if s.Dominates(b) && !heads[s] {
				heads[s] = true
				n++
			}
		}
		for _, in := range b.Instrs {
			if c, ok := in.(*ssa.Call); ok {
				if isMapsIterate(c.Call.StaticCallee()) {
					n++
				} else {
					n += w.loopSlots(c.Call.StaticCallee(), depth+1)
				}
			}
		}
	}
	w.slots[f] = n
	return n
}

// InlineOnly: f has no contract and is reached only through static calls from repository functions (never used as a
// function value, never a method that can be called through an interface): every execution of f is then covered where
// it is inlined, so it is not verified on its own against an empty precondition.
func (w *World) InlineOnly(f *ssa.Function) bool {
	if !w.inlinable(f) {
		return false
	}
	if f.Signature.Recv() != nil {
		// a method can also be reached through an interface: only an unexported method whose name no interface type
		// mentioned in its package declares (and that is never used as a method value) is called statically only
		if f.Object() == nil || f.Object().Exported() || w.ifaceMethodNames(f)[f.Name()] {
			return false
		}
	}
	if w.inlineOnly == nil {
		w.inlineOnly = map[*ssa.Function]int{}
		called := map[*ssa.Function]bool{}
		valued := map[*ssa.Function]bool{}
		var scan func(g *ssa.Function)
		scan = func(g *ssa.Function) {
			for _, b := range g.Blocks {
				for _, in := range b.Instrs {
					if _, isDbg := in.(*ssa.DebugRef); isDbg {
						continue // debug references mention every identifier, the callee of a call included
					}
					var calleeV ssa.Value
					if ci, ok := in.(ssa.CallInstruction); ok {
						calleeV = ci.Common().Value
						if fn, ok := calleeV.(*ssa.Function); ok && !ci.Common().IsInvoke() {
							if _, isGo := in.(*ssa.Go); isGo {
								valued[fn] = true
							} else if _, isDefer := in.(*ssa.Defer); isDefer {
								valued[fn] = true
							} else {
								called[fn] = true
							}
						}
					}
					for _, op := range in.Operands(nil) {
						if op == nil || *op == nil {
							continue
						}
						if fn, ok := (*op).(*ssa.Function); ok && *op != calleeV {
							valued[fn] = true
							if fn.Synthetic != "" {
								// a bound-method or thunk wrapper: the method it wraps is used as a value
								for _, g := range w.Funcs {
									if g.Signature.Recv() != nil && strings.HasPrefix(fn.Name(), g.Name()+"$") {
										valued[g] = true
									}
								}
							}
						}
					}
				}
			}
			for _, a := range g.AnonFuncs {
				scan(a)
			}
		}
		for _, g := range w.Funcs {
			if g.Parent() == nil {
				scan(g)
			}
		}
		for _, g := range w.Funcs {
			switch {
			case valued[g] || !called[g]:
				w.inlineOnly[g] = 1
			default:
				w.inlineOnly[g] = 2
			}
		}
	}
	return w.inlineOnly[f] == 2
}

// ifaceMethodNames: the method names of every interface type that occurs in the package of f (declared, anonymous,
// embedded or imported-and-mentioned).
func (w *World) ifaceMethodNames(f *ssa.Function) map[string]bool {
	if w.ifaceNames == nil {
		w.ifaceNames = map[string]map[string]bool{}
	}
	pkg := calleePkg(f)
	if pkg == nil {
		return map[string]bool{f.Name(): true}
	}
	if m, ok := w.ifaceNames[pkg.Path()]; ok {
		return m
	}
	m := map[string]bool{}
	add := func(t types.Type) {
		if t == nil {
			return
		}
		if it, ok := t.Underlying().(*types.Interface); ok {
			for i := 0; i < it.NumMethods(); i++ {
				m[it.Method(i).Name()] = true
			}
		}
	}
	if p := w.PkgByPath[pkg.Path()]; p != nil && p.TypesInfo != nil {
		for _, tv := range p.TypesInfo.Types {
			add(tv.Type)
		}
		for _, o := range p.TypesInfo.Defs {
			if o != nil {
				add(o.Type())
			}
		}
	} else {
		m[f.Name()] = true
	}
	w.ifaceNames[pkg.Path()] = m
	return m
}

// isEffectKey reports whether key names an operation declared `effect` (the key under which its calls are logged).
func (w *World) isEffectKey(key string) bool {
	if sp, ok := w.Specs[key]; ok {
		return sp.Effect
	}
	// a function of the module given an assumed contract is logged under its short key, declared under its full name
	if i := strings.Index(key, ":"); i >= 0 {
		if sp, ok := w.Specs[RepoModule+"/"+key[:i]+"."+key[i+1:]]; ok {
			return sp.Effect
		}
	}
	return false
}

// BodyMayEffect: the body of f can append events (not counting the event of calling f itself when f is declared
// `effect`).
func (w *World) BodyMayEffect(f *ssa.Function) bool {
	if w.mayEffect == nil {
		w.mayEffect = map[*ssa.Function]int{}
	}
	saved, had := w.mayEffect[f]
	w.mayEffect[f] = 3
	res := w.bodyMayEffect(f)
	if had {
		w.mayEffect[f] = saved
	} else {
		delete(w.mayEffect, f)
	}
	return res
}

func (w *World) bodyMayEffect(f *ssa.Function) bool {
	// a function given an assumed (`extern`) contract is opaque, like any other external: what happens inside it is
	// not part of the trace of its callers (e.g. the generated composition root internal/gontainer)
	if sp := w.SpecFor(f); sp != nil && sp.Kind == "extern" {
		return false
	}
	res := false
	for _, b := range f.Blocks {
		if res {
			break
		}
		for _, in := range b.Instrs {
			if mc, ok := in.(*ssa.MakeClosure); ok {
				if fn, ok := mc.Fn.(*ssa.Function); ok && w.MayEffect(fn) {
					res = true
				}
			}
			ci, ok := in.(ssa.CallInstruction)
			if !ok {
				continue
			}
			c := ci.Common()
			if c.IsInvoke() {
				if key, ok := ifaceSpecKey(c); ok {
					if sp, ok := w.Specs[key]; ok && sp.Effect {
						res = true
					}
				}
				continue
			}
			if callee := c.StaticCallee(); callee != nil {
				if sp := w.SpecFor(callee); sp != nil && sp.Effect {
					res = true
				} else if callee.Blocks != nil && IsRepo(callee) && w.MayEffect(callee) {
					res = true
				} else if isMapsIterate(callee) {
					// the callback is a closure created in f: scanned above
				}
			}
		}
	}
	return res
}

// LocalsOf lists, for every top-level function of the repository, the variables it declares (parameters, results,
// locals, also those of nested function literals) in source order, each with its type.
func (w *World) LocalsOf() map[string][][2]string {
	out := map[string][][2]string{}
	for _, p := range w.Pkgs {
		if p.Types == nil || !inRepoPath(p.Types.Path()) {
			continue
		}
		q := func(o *types.Package) string { return o.Name() }
		for _, f := range p.Syntax {
			for _, d := range f.Decls {
				fd, ok := d.(*ast.FuncDecl)
				if !ok {
					continue
				}
				fo, ok := p.TypesInfo.Defs[fd.Name].(*types.Func)
				if !ok {
					continue
				}
				sf := w.Prog.FuncValue(fo)
				if sf == nil {
					continue
				}
				key := FuncKey(sf)
				var list [][2]string
				ast.Inspect(fd, func(n ast.Node) bool {
					id, ok := n.(*ast.Ident)
					if !ok || id.Name == "_" {
						return true
					}
					if v, ok := p.TypesInfo.Defs[id].(*types.Var); ok && !v.IsField() {
						list = append(list, [2]string{id.Name, types.TypeString(v.Type(), q)})
					}
					return true
				})
				out[key] = list
			}
		}
	}
	return out
}

// LoadLocalsLock reads the variable lists recorded by `govc lock` and derives, per function, the pure renames since
// then: a name the contracts may use that no longer exists, whose same-typed, same-position successor is a name that
// did not exist before (and the function still declares as many variables of that type). Contract identifiers that
// do not resolve are looked up through this map, so that renaming a local variable or a parameter alone does not
// break a proof.
func (w *World) LoadLocalsLock(path string) {
	data, err := os.ReadFile(path)
	if err != nil {
		return
	}
	locked := map[string][][2]string{}
	if json.Unmarshal(data, &locked) != nil {
		return
	}
	cur := w.LocalsOf()
	w.Renames = map[string]map[string]string{}
	for key, l := range locked {
		c, ok := cur[key]
		if !ok {
			continue
		}
		curNames, lockedNames := map[string]bool{}, map[string]bool{}
		byTypeL, byTypeC := map[string][]string{}, map[string][]string{}
		for _, e := range l {
			lockedNames[e[0]] = true
			byTypeL[e[1]] = append(byTypeL[e[1]], e[0])
		}
		for _, e := range c {
			curNames[e[0]] = true
			byTypeC[e[1]] = append(byTypeC[e[1]], e[0])
		}
		ren := map[string]string{}
		for t, ln := range byTypeL {
			cn := byTypeC[t]
			if len(cn) != len(ln) {
				continue
			}
			for k := range ln {
				if ln[k] != cn[k] && !curNames[ln[k]] && !lockedNames[cn[k]] {
					if prev, dup := ren[ln[k]]; dup && prev != cn[k] {
						ren[ln[k]] = "" // ambiguous
						continue
					}
					ren[ln[k]] = cn[k]
				}
			}
		}
		for o, n := range ren {
			if n == "" {
				delete(ren, o)
			}
		}
		if len(ren) > 0 {
			w.Renames[key] = ren
		}
	}
}

// renamed answers the current name of a contract identifier of the (top-level function of the) given function.
func (w *World) renamed(f *ssa.Function, name string) string {
	if w.Renames == nil || f == nil {
		return ""
	}
	if o := f.Origin(); o != nil {
		f = o
	}
	for f.Parent() != nil {
		f = f.Parent()
	}
	return w.Renames[FuncKey(f)][name]
}

// lockedName answers the name a (possibly renamed) variable had when the contracts were locked; obligation names are
// built from it so that a pure rename does not rename obligations.
func (w *World) lockedName(f *ssa.Function, cur string) string {
	if w.Renames == nil || f == nil {
		return cur
	}
	if o := f.Origin(); o != nil {
		f = o
	}
	for f.Parent() != nil {
		f = f.Parent()
	}
	for old, nn := range w.Renames[FuncKey(f)] {
		if nn == cur {
			return old
		}
	}
	return cur
}
