package engine

import (
	"fmt"
	"go/constant"
	"go/types"
	"sort"
	"strings"

	"govc/internal/spec"

	"golang.org/x/tools/go/ssa"
)

// SpecEnv is the environment in which a contract expression is compiled to SMT.
type SpecEnv struct {
	vc          *VC
	fr          *Frame
	st, old     *State
	names       map[string]Val
	bound       map[string]Val
	results     []Val
	resultNames []string
	pkg         *types.Package
	loop        *loopInfo
	inOld       bool
	errs        []string
	typeArgs    map[string]types.Type // instantiation of the callee's type parameters at a call site
	owner       *ssa.Function         // the function whose contract is being compiled (for renamed variables); nil: the frame's
	renaming    bool
	noState     bool // compiling the body of a spec function: it is defined once, so it must not read the effect trace
}

// ownerFn is the function whose contract the environment compiles.
func (e *SpecEnv) ownerFn() *ssa.Function {
	if e.owner != nil {
		return e.owner
	}
	if e.fr != nil {
		return e.fr.fn
	}
	return nil
}

func (e *SpecEnv) fail(x spec.Expr, format string, a ...any) Val {
	// A clause that no longer fits the code (renamed variable, changed loop shape) means the proof does not go
	// through: the unit leaves the verified subset and its obligations fail closed. (Syntax errors in contract
	// files are fatal at load time instead.)
	msg := fmt.Sprintf("%s: %s: in `%s`", x.Pos(), fmt.Sprintf(format, a...), x.String())
	e.vc.outside("contract clause does not apply to the current code: %s", msg)
	return Val{T: types.Typ[types.Bool], Term: "false"}
}

func (e *SpecEnv) state() *State {
	if e.inOld && e.old != nil {
		return e.old
	}
	return e.st
}

func (e *SpecEnv) sortOf(v Val) string {
	if v.Sort != "" {
		return v.Sort
	}
	if v.T == nil {
		return "Int"
	}
	return e.vc.S.Sort(v.T)
}

func (e *SpecEnv) compileBool(x spec.Expr) string {
	v := e.compile(x)
	if e.sortOf(v) != "Bool" {
		e.fail(x, "expected a boolean, got %s", e.sortOf(v))
		return "false"
	}
	return v.Term
}

// termOf forces a value into a term (reading object cells / pointer cells in the env state).
func (e *SpecEnv) termOf(v Val) string {
	if v.Sort != "" {
		return v.Term
	}
	return e.vc.term(e.state(), v)
}

func (e *SpecEnv) compile(x spec.Expr) Val {
	vc := e.vc
	switch x := x.(type) {
	case *spec.IntLit:
		return Val{T: types.Typ[types.Int], Term: x.Val}
	case *spec.StrLit:
		return Val{T: types.Typ[types.String], Term: strLit(x.Val)}
	case *spec.BoolLit:
		if x.Val {
			return Val{T: types.Typ[types.Bool], Term: "true"}
		}
		return Val{T: types.Typ[types.Bool], Term: "false"}
	case *spec.NilLit:
		return Val{T: types.Typ[types.UntypedNil], Term: "nil"}
	case *spec.Ident:
		return e.ident(x)
	case *spec.Old:
		if e.old == nil {
			return e.fail(x, "old() is not available here")
		}
		saved := e.inOld
		e.inOld = true
		v := e.compile(x.X)
		if v.Sort == "" && (v.Obj != nil || v.Loc != nil) {
			v = Val{T: v.T, Term: vc.term(e.old, v)}
		}
		e.inOld = saved
		return v
	case *spec.Unary:
		v := e.compile(x.X)
		switch x.Op {
		case "!":
			return Val{T: types.Typ[types.Bool], Term: not(e.termOf(v))}
		case "-":
			return Val{T: v.T, Term: "(- " + e.termOf(v) + ")"}
		case "*":
			return e.deref(x, v)
		}
	case *spec.Binary:
		return e.binary(x)
	case *spec.Cond:
		c := e.compileBool(x.C)
		a, b := e.compile(x.T), e.compile(x.E)
		a, b = e.unifyNil(a, b)
		r := Val{T: a.T, Sort: a.Sort, Term: ite(c, e.termOf(a), e.termOf(b))}
		return r
	case *spec.Select:
		return e.selectExpr(x)
	case *spec.Index:
		return e.index(x)
	case *spec.SliceE:
		v := e.compile(x.X)
		if v.T != nil && isString(v.T) {
			s := e.termOf(v)
			lo, hi := "0", fmt.Sprintf("(str.len %s)", s)
			if x.Lo != nil {
				lo = e.termOf(e.compile(x.Lo))
			}
			if x.Hi != nil {
				hi = e.termOf(e.compile(x.Hi))
			}
			return Val{T: v.T, Term: fmt.Sprintf("(str.substr %s %s (- %s %s))", s, lo, hi, lo)}
		}
		return e.fail(x, "slice expressions are supported on strings only")
	case *spec.Call:
		return e.call(x)
	case *spec.Quant:
		saved := map[string]Val{}
		var decls []string
		for _, v := range x.Vars {
			t, srt, ok := e.resolveType(v.Type)
			if !ok {
				return e.fail(x, "unknown type %s", v.Type)
			}
			if old, had := e.bound[v.Name]; had {
				saved[v.Name] = old
			}
			e.bound[v.Name] = Val{T: t, Sort: sortIfSpec(t, srt), Term: "?" + v.Name}
			decls = append(decls, fmt.Sprintf("(?%s %s)", v.Name, srt))
		}
		body := e.compileBool(x.Body)
		var pats string
		if len(x.Pats) > 0 {
			var ps []string
			for _, p := range x.Pats {
				var ts []string
				for _, pe := range p {
					ts = append(ts, e.termOf(e.compile(pe)))
				}
				ps = append(ps, ":pattern ("+strings.Join(ts, " ")+")")
			}
			pats = " " + strings.Join(ps, " ")
		}
		for _, v := range x.Vars {
			delete(e.bound, v.Name)
			if old, had := saved[v.Name]; had {
				e.bound[v.Name] = old
			}
		}
		q := "exists"
		if x.Forall {
			q = "forall"
		}
		if pats != "" {
			return Val{T: types.Typ[types.Bool], Term: fmt.Sprintf("(%s (%s) (! %s%s))", q, strings.Join(decls, " "), body, pats)}
		}
		return Val{T: types.Typ[types.Bool], Term: fmt.Sprintf("(%s (%s) %s)", q, strings.Join(decls, " "), body)}
	case *spec.Let:
		v := e.compile(x.Val)
		old, had := e.bound[x.Name]
		if v.Sort == "" && (v.Obj != nil || v.Loc != nil) {
			v = Val{T: v.T, Term: e.termOf(v)}
		}
		e.bound[x.Name] = v
		r := e.compile(x.Body)
		delete(e.bound, x.Name)
		if had {
			e.bound[x.Name] = old
		}
		return r
	}
	return e.fail(x, "unsupported expression")
}

func sortIfSpec(t types.Type, srt string) string {
	if t == nil {
		return srt
	}
	return ""
}

// resolveType maps a syntactic type to a Go type (or a spec sort).
func (e *SpecEnv) resolveType(t spec.TypeExpr) (types.Type, string, bool) {
	vc := e.vc
	switch t.Kind {
	case "slice":
		et, _, ok := e.resolveType(*t.Elem)
		if !ok || et == nil {
			return nil, "", false
		}
		st := types.NewSlice(et)
		return st, vc.S.Sort(st), true
	case "ptr":
		et, _, ok := e.resolveType(*t.Elem)
		if !ok || et == nil {
			return nil, "", false
		}
		pt := types.NewPointer(et)
		return pt, vc.S.Sort(pt), true
	case "map":
		kt, _, ok1 := e.resolveType(*t.Key)
		et, _, ok2 := e.resolveType(*t.Elem)
		if !ok1 || !ok2 || kt == nil || et == nil {
			return nil, "", false
		}
		mt := types.NewMap(kt, et)
		return mt, vc.S.Sort(mt), true
	}
	switch t.Name {
	case "int":
		return types.Typ[types.Int], "Int", true
	case "string":
		return types.Typ[types.String], "String", true
	case "bool":
		return types.Typ[types.Bool], "Bool", true
	case "any":
		at := types.Universe.Lookup("any").Type()
		return at, "Any", true
	case "error":
		et := types.Universe.Lookup("error").Type()
		return et, "Err", true
	case "uint":
		return types.Typ[types.Uint], "Int", true
	case "byte":
		return types.Typ[types.Uint8], "Int", true
	case "rune":
		return types.Typ[types.Rune], "Int", true
	case "int64":
		return types.Typ[types.Int64], "Int", true
	case "struct{}":
		st := types.NewStruct(nil, nil)
		return st, vc.S.Sort(st), true
	case "strset":
		return nil, "(Array String Bool)", true
	case "intset":
		return nil, "(Array Int Bool)", true
	case "relang":
		return nil, "RegLan", true
	case "edgeset":
		if _, ok := vc.S.Extra["Node"]; ok {
			return nil, "(Array Node (Array Node Bool))", true
		}
	}
	if _, ok := vc.S.Extra[t.Name]; ok {
		return nil, t.Name, true
	}
	if ta, ok := e.typeArgs[t.Name]; ok {
		return ta, vc.S.Sort(ta), true
	}
	// type parameters of the function under contract
	for fr := e.fr; fr != nil; fr = fr.parent {
		fn := fr.fn
		if o := fn.Origin(); o != nil {
			fn = o
		}
		if tps := fn.TypeParams(); tps != nil {
			for i := 0; i < tps.Len(); i++ {
				if tps.At(i).Obj().Name() == t.Name {
					return tps.At(i), vc.S.Sort(tps.At(i)), true
				}
			}
		}
	}
	if tn := e.lookupTypeName(t.Name); tn != nil {
		return tn.Type(), vc.S.Sort(tn.Type()), true
	}
	return nil, "", false
}

func (e *SpecEnv) lookupTypeName(name string) *types.TypeName {
	obj := e.lookupObj(name)
	if tn, ok := obj.(*types.TypeName); ok {
		return tn
	}
	return nil
}

// lookupObj resolves Name or pkg.Name in the scope of the contract's package.
func (e *SpecEnv) lookupObj(name string) types.Object {
	if i := strings.Index(name, "."); i >= 0 {
		pn, n := name[:i], name[i+1:]
		if e.pkg != nil {
			for _, imp := range e.pkg.Imports() {
				if imp.Name() == pn {
					return imp.Scope().Lookup(n)
				}
			}
		}
		// allow naming any loaded package by its package name
		for path, p := range e.vc.W.PkgByPath {
			if p.Types != nil && p.Types.Name() == pn && inRepoPath(path) {
				if o := p.Types.Scope().Lookup(n); o != nil {
					return o
				}
			}
		}
		// assumed contracts have no package of their own: any loaded package of that name (sorted for determinism)
		var paths []string
		for path, p := range e.vc.W.PkgByPath {
			if p.Types != nil && p.Types.Name() == pn {
				paths = append(paths, path)
			}
		}
		sort.Strings(paths)
		for _, path := range paths {
			if o := e.vc.W.PkgByPath[path].Types.Scope().Lookup(n); o != nil {
				return o
			}
		}
		return nil
	}
	if e.pkg == nil {
		return nil
	}
	return e.pkg.Scope().Lookup(name)
}

func (e *SpecEnv) ident(x *spec.Ident) Val {
	name := x.Name
	if v, ok := e.bound[name]; ok {
		return v
	}
	if v, ok := e.names[name]; ok {
		return v
	}
	if name == "result" && len(e.results) > 0 {
		return e.results[0]
	}
	for i, rn := range e.resultNames {
		if rn == name && rn != "" && rn != "_" && i < len(e.results) {
			return e.results[i]
		}
	}
	if strings.HasPrefix(name, "$i") && len(name) > 2 && e.fr != nil {
		var k int
		if _, err := fmt.Sscanf(name[2:], "%d", &k); err == nil {
			// the enclosing loop may live in a calling frame when this frame is a helper executed in place
			for f := e.fr; f != nil; f = f.parent {
				for _, li := range f.loops {
					if li.ordinal == k && li.idxPhi != nil {
						if v, ok := f.env[li.idxPhi]; ok {
							return Val{T: types.Typ[types.Int], Term: fmt.Sprintf("(+ %s 1)", v.Term)}
						}
					}
				}
				if f.flatOwner == nil {
					break
				}
			}
			return e.fail(x, "%s: no such range-over-slice loop (or not yet entered)", name)
		}
	}
	if e.loop != nil {
		switch name {
		case "$i":
			if e.loop.idxPhi != nil && e.loop.frame != nil {
				t := e.loop.frame.env[e.loop.idxPhi].Term
				return Val{T: types.Typ[types.Int], Term: fmt.Sprintf("(+ %s 1)", t)}
			}
			if e.loop.rng != nil && e.loop.rng.IsStr && e.loop.rng.PosCell != nil {
				// range over a string: the byte offset of the next segment
				return Val{T: types.Typ[types.Int], Term: e.state().cells[e.loop.rng.PosCell]}
			}
			return e.fail(x, "$i: not a range-over-slice loop")
		case "visited":
			if e.loop.rng != nil && e.loop.rng.Visited != nil {
				return Val{Sort: e.loop.rng.Visited.Sort, Term: e.state().cells[e.loop.rng.Visited]}
			}
			// inside the callback of maps.Iterate: the keys delivered before the current one
			for f := e.fr; f != nil; f = f.parent {
				if f.activeIter != nil && f.activeIter.rng != nil {
					return Val{Sort: f.activeIter.rng.Visited.Sort, Term: e.state().cells[f.activeIter.rng.Visited]}
				}
			}
			return e.fail(x, "visited: not a range-over-map loop")
		}
	}
	if e.fr != nil {
		e.fr.oldMode = e.inOld
		v, ok := e.fr.resolveLocal(name, e.state())
		e.fr.oldMode = false
		if ok {
			return v
		}
	}
	if g, ok := e.vc.W.Ghosts[name]; ok {
		_, srt, ok := e.resolveType(g.Type)
		if !ok {
			return e.fail(x, "ghost %s: unknown type %s", name, g.Type)
		}
		c := e.vc.ghostCell(e.state(), name, srt)
		return Val{Sort: srt, Term: e.state().cells[c]}
	}
	// package-level constants and variables
	if obj := e.lookupObj(name); obj != nil {
		return e.objVal(x, obj)
	}
	// a variable that was renamed since the contracts were locked (a pure rename, see World.LoadLocalsLock)
	if !e.renaming {
		if nn := e.vc.W.renamed(e.ownerFn(), name); nn != "" {
			e.renaming = true
			v := e.ident(&spec.Ident{Name: nn})
			e.renaming = false
			if len(e.errs) == 0 {
				e.vc.Assumed["contract identifier "+name+" read as the renamed variable "+nn+" (same type and position as when the contracts were locked)"] = true
			}
			return v
		}
	}
	return e.fail(x, "unknown identifier %s", name)
}

func (e *SpecEnv) objVal(x spec.Expr, obj types.Object) Val {
	vc := e.vc
	switch o := obj.(type) {
	case *types.Const:
		switch o.Val().Kind() {
		case constant.Int:
			return Val{T: o.Type(), Term: intLitStr(o.Val().ExactString())}
		case constant.String:
			return Val{T: o.Type(), Term: strLit(constant.StringVal(o.Val()))}
		case constant.Bool:
			if constant.BoolVal(o.Val()) {
				return Val{T: o.Type(), Term: "true"}
			}
			return Val{T: o.Type(), Term: "false"}
		}
	case *types.Var:
		// package-level variable: its global cell
		for _, p := range vc.W.Pkgs {
			if p.Types == o.Pkg() {
				if sp := vc.W.Prog.Package(p.Types); sp != nil {
					if g, ok := sp.Members[o.Name()].(*ssa.Global); ok {
						if pat, ok := vc.W.Regexes[g]; ok {
							pp := pat
							return Val{T: o.Type(), Re: &pp, Term: "0"}
						}
						c := vc.W.globalCell(vc, g)
						return Val{T: o.Type(), Term: vc.load(e.state(), &Loc{Cell: c})}
					}
				}
			}
		}
		if sp := vc.W.Prog.Package(o.Pkg()); sp != nil {
			if g, ok := sp.Members[o.Name()].(*ssa.Global); ok {
				if pat, ok := vc.W.Regexes[g]; ok {
					pp := pat
					return Val{T: o.Type(), Re: &pp, Term: "0"}
				}
				c := vc.W.globalCell(vc, g)
				return Val{T: o.Type(), Term: vc.load(e.state(), &Loc{Cell: c})}
			}
		}
	}
	return e.fail(x, "cannot use %s here", obj.Name())
}

func intLitStr(s string) string {
	if strings.HasPrefix(s, "-") {
		return "(- " + s[1:] + ")"
	}
	return s
}

func (e *SpecEnv) deref(x spec.Expr, v Val) Val {
	vc := e.vc
	if v.T == nil {
		return e.fail(x, "dereference of a spec value")
	}
	pt, ok := v.T.Underlying().(*types.Pointer)
	if !ok {
		return e.fail(x, "dereference of non-pointer %s", v.T)
	}
	if v.Loc != nil {
		return Val{T: pt.Elem(), Term: vc.load(e.state(), v.Loc)}
	}
	es := vc.S.Sort(pt.Elem())
	vc.S.Sort(v.T)
	return Val{T: pt.Elem(), Term: fmt.Sprintf("(val_%s %s)", es, e.termOf(v))}
}

func (e *SpecEnv) selectExpr(x *spec.Select) Val {
	vc := e.vc
	// qualified identifier pkg.Name
	if id, ok := x.X.(*spec.Ident); ok {
		if _, isBound := e.bound[id.Name]; !isBound {
			if _, isName := e.names[id.Name]; !isName {
				if obj := e.lookupObj(id.Name + "." + x.Name); obj != nil {
					if e.fr == nil || !e.fr.hasLocal(id.Name) {
						return e.objVal(x, obj)
					}
				}
			}
		}
	}
	v := e.compile(x.X)
	if v.Sort != "" {
		// spec datatype field: ctor_field selector, found by field name
		if dt, ok := vc.S.Extra[v.Sort]; ok {
			for _, c := range dt.Ctors {
				for _, f := range c.Fields {
					if f.Name == x.Name {
						return e.specField(f.Sort, fmt.Sprintf("(%s_%s %s)", c.Name, f.Name, v.Term))
					}
				}
			}
		}
		return e.fail(x, "no field %s in sort %s", x.Name, v.Sort)
	}
	if len(v.Tuple) > 0 {
		var idx int
		if _, err := fmt.Sscanf(x.Name, "%d", &idx); err == nil && idx < len(v.Tuple) {
			return v.Tuple[idx]
		}
	}
	if x.X.String() == "result" {
		var idx int
		if _, err := fmt.Sscanf(x.Name, "%d", &idx); err == nil && idx < len(e.results) {
			return e.results[idx]
		}
	}
	t := v.T
	if pt, ok := t.Underlying().(*types.Pointer); ok {
		v = e.deref(x, v)
		t = pt.Elem()
	}
	st := structOf(t)
	if st == nil {
		return e.fail(x, "selector %s on non-struct %s", x.Name, t)
	}
	for i := 0; i < st.NumFields(); i++ {
		if st.Field(i).Name() == x.Name {
			srt := vc.S.Sort(t)
			return Val{T: st.Field(i).Type(), Term: fmt.Sprintf("(%s %s)", fieldSel(srt, x.Name), e.termOf(v))}
		}
	}
	return e.fail(x, "no field %s in %s", x.Name, t)
}

func (e *SpecEnv) specField(srt, term string) Val {
	switch srt {
	case "Int":
		return Val{T: types.Typ[types.Int], Term: term}
	case "String":
		return Val{T: types.Typ[types.String], Term: term}
	case "Bool":
		return Val{T: types.Typ[types.Bool], Term: term}
	}
	return Val{Sort: srt, Term: term}
}

func (e *SpecEnv) index(x *spec.Index) Val {
	vc := e.vc
	v := e.compile(x.X)
	i := e.compile(x.I)
	if v.Sort != "" {
		if strings.HasPrefix(v.Sort, "(Array ") {
			return e.specField(arrayElemSort(v.Sort), fmt.Sprintf("(select %s %s)", v.Term, e.termOf(i)))
		}
		return e.fail(x, "index on sort %s", v.Sort)
	}
	switch u := v.T.Underlying().(type) {
	case *types.Slice:
		return Val{T: u.Elem(), Term: sliceAt(vc.S.Sort(v.T), e.termOf(v), e.termOf(i))}
	case *types.Array:
		return Val{T: u.Elem(), Term: sliceAt(vc.S.Sort(v.T), e.termOf(v), e.termOf(i))}
	case *types.Map:
		ms := vc.S.Sort(v.T)
		m, k := e.termOf(v), e.termOf(i)
		return Val{T: u.Elem(), Term: ite(and(not(mapNil(ms, m)), mapHas(ms, m, k)), mapGet(ms, m, k), vc.S.Zero(u.Elem()))}
	case *types.Basic:
		if isString(v.T) {
			return Val{T: types.Typ[types.Int], Term: fmt.Sprintf("(str.to_code (str.at %s %s))", e.termOf(v), e.termOf(i))}
		}
	}
	return e.fail(x, "index on %s", v.T)
}

func arrayElemSort(s string) string {
	// "(Array K V)" with atomic K
	s = strings.TrimSuffix(strings.TrimPrefix(s, "(Array "), ")")
	if i := strings.Index(s, " "); i >= 0 {
		return s[i+1:]
	}
	return s
}

// unifyNil gives an untyped nil the type of the other operand.
func (e *SpecEnv) unifyNil(a, b Val) (Val, Val) {
	isNil := func(v Val) bool { return v.Term == "nil" && v.T == types.Typ[types.UntypedNil] }
	if isNil(a) && !isNil(b) {
		a = e.nilOf(b)
	} else if isNil(b) && !isNil(a) {
		b = e.nilOf(a)
	}
	return a, b
}

func (e *SpecEnv) nilOf(like Val) Val {
	if like.T == nil {
		return like
	}
	return Val{T: like.T, Term: e.vc.S.Zero(like.T)}
}

func (e *SpecEnv) isNilTest(v Val) (string, bool) {
	vc := e.vc
	if v.T == nil {
		return "", false
	}
	switch v.T.Underlying().(type) {
	case *types.Pointer:
		if v.Loc != nil {
			return vc.ptrNil(v), true
		}
		pt := v.T.Underlying().(*types.Pointer)
		es := vc.S.Sort(pt.Elem())
		vc.S.Sort(v.T)
		return fmt.Sprintf("((_ is none_%s) %s)", es, e.termOf(v)), true
	case *types.Slice:
		return sliceNil(vc.S.Sort(v.T), e.termOf(v)), true
	case *types.Map:
		return mapNil(vc.S.Sort(v.T), e.termOf(v)), true
	case *types.Interface:
		switch vc.S.Sort(v.T) {
		case "Err":
			return eq(e.termOf(v), "enil"), true
		case "Any":
			return eq(e.termOf(v), "anil"), true
		case "Iface":
			return eq(e.termOf(v), "inil"), true
		}
	case *types.Signature:
		// function values are identifiers; the nil function value is the zero identifier
		return eq(e.termOf(v), vc.S.Zero(v.T)), true
	}
	return "", false
}

func (e *SpecEnv) binary(x *spec.Binary) Val {
	vc := e.vc
	B := types.Typ[types.Bool]
	switch x.Op {
	case "&&":
		return Val{T: B, Term: and(e.compileBool(x.L), e.compileBool(x.R))}
	case "||":
		return Val{T: B, Term: or(e.compileBool(x.L), e.compileBool(x.R))}
	case "==>":
		return Val{T: B, Term: implies(e.compileBool(x.L), e.compileBool(x.R))}
	case "<==>":
		return Val{T: B, Term: fmt.Sprintf("(= %s %s)", e.compileBool(x.L), e.compileBool(x.R))}
	case "in":
		k := e.compile(x.L)
		c := e.compile(x.R)
		if c.Sort != "" && strings.HasPrefix(c.Sort, "(Array ") {
			return Val{T: B, Term: fmt.Sprintf("(select %s %s)", c.Term, e.termOf(k))}
		}
		if c.T != nil {
			switch c.T.Underlying().(type) {
			case *types.Map:
				ms := vc.S.Sort(c.T)
				return Val{T: B, Term: and(not(mapNil(ms, e.termOf(c))), mapHas(ms, e.termOf(c), e.termOf(k)))}
			case *types.Slice:
				srt := vc.S.Sort(c.T)
				ct := e.termOf(c)
				vc.n++
				iv := fmt.Sprintf("?in%d", vc.n)
				return Val{T: B, Term: fmt.Sprintf("(exists ((%s Int)) (and (<= 0 %s) (< %s (len_%s %s)) (= (select (arr_%s %s) %s) %s)))", iv, iv, iv, srt, ct, srt, ct, iv, e.termOf(k))}
			}
		}
		return e.fail(x, "`in` needs a map, slice or set")
	}
	l, r := e.compile(x.L), e.compile(x.R)
	if x.Op == "==" || x.Op == "!=" {
		isNil := func(v Val) bool { return v.Term == "nil" && v.T == types.Typ[types.UntypedNil] }
		var t string
		switch {
		case isNil(r):
			nt, ok := e.isNilTest(l)
			if !ok {
				return e.fail(x, "comparison with nil of %v", l.T)
			}
			t = nt
		case isNil(l):
			nt, ok := e.isNilTest(r)
			if !ok {
				return e.fail(x, "comparison with nil of %v", r.T)
			}
			t = nt
		default:
			ls, rs := e.sortOf(l), e.sortOf(r)
			if ls != rs {
				return e.fail(x, "comparison of different sorts %s and %s", ls, rs)
			}
			t = eq(e.termOf(l), e.termOf(r))
		}
		if x.Op == "!=" {
			t = not(t)
		}
		return Val{T: B, Term: t}
	}
	lt, rt := e.termOf(l), e.termOf(r)
	if l.T != nil && isString(l.T) {
		switch x.Op {
		case "+":
			return Val{T: l.T, Term: fmt.Sprintf("(str.++ %s %s)", lt, rt)}
		case "<":
			return Val{T: B, Term: fmt.Sprintf("(str.< %s %s)", lt, rt)}
		case "<=":
			return Val{T: B, Term: fmt.Sprintf("(str.<= %s %s)", lt, rt)}
		case ">":
			return Val{T: B, Term: fmt.Sprintf("(str.< %s %s)", rt, lt)}
		case ">=":
			return Val{T: B, Term: fmt.Sprintf("(str.<= %s %s)", rt, lt)}
		}
	}
	switch x.Op {
	case "+", "-", "*":
		return Val{T: l.T, Term: fmt.Sprintf("(%s %s %s)", x.Op, lt, rt)}
	case "/":
		return Val{T: l.T, Term: fmt.Sprintf("(div %s %s)", lt, rt)}
	case "%":
		return Val{T: l.T, Term: fmt.Sprintf("(mod %s %s)", lt, rt)}
	case "<", "<=", ">", ">=":
		return Val{T: B, Term: fmt.Sprintf("(%s %s %s)", x.Op, lt, rt)}
	}
	return e.fail(x, "unsupported operator %s", x.Op)
}

// ---------------------------------------------------------------- calls in contracts

func (e *SpecEnv) call(x *spec.Call) Val {
	vc := e.vc
	B, I, S := types.Typ[types.Bool], types.Typ[types.Int], types.Typ[types.String]
	fname := x.Fun.String()
	arg := func(i int) Val { return e.compile(x.Args[i]) }
	argT := func(i int) string { return e.termOf(e.compile(x.Args[i])) }
	need := func(n int) bool { return len(x.Args) == n }
	switch fname {
	case "len":
		if !need(1) {
			break
		}
		v := arg(0)
		if v.T == nil {
			return e.fail(x, "len of spec value")
		}
		switch u := v.T.Underlying().(type) {
		case *types.Basic:
			return Val{T: I, Term: fmt.Sprintf("(str.len %s)", e.termOf(v))}
		case *types.Slice:
			return Val{T: I, Term: vc.sliceLen(vc.S.Sort(v.T), e.termOf(v))}
		case *types.Map:
			return Val{T: I, Term: vc.mapCard(vc.S.Sort(v.T), vc.S.Sort(u.Key()), e.termOf(v))}
		}
		return e.fail(x, "len of %s", v.T)
	case "empty":
		if need(1) {
			v := arg(0)
			if v.T != nil {
				switch u := v.T.Underlying().(type) {
				case *types.Map:
					ms := vc.S.Sort(v.T)
					vc.n++
					kv := fmt.Sprintf("?e%d", vc.n)
					return Val{T: B, Term: fmt.Sprintf("(or %s (forall ((%s %s)) (not %s)))", mapNil(ms, e.termOf(v)), kv, vc.S.Sort(u.Key()), mapHas(ms, e.termOf(v), kv))}
				case *types.Slice:
					return Val{T: B, Term: fmt.Sprintf("(= %s 0)", vc.sliceLen(vc.S.Sort(v.T), e.termOf(v)))}
				case *types.Basic:
					return Val{T: B, Term: fmt.Sprintf("(= %s \"\")", e.termOf(v))}
				}
			}
			return e.fail(x, "empty() needs a map, slice or string")
		}
	case "hasPrefix":
		if need(2) {
			return Val{T: B, Term: fmt.Sprintf("(str.prefixof %s %s)", argT(1), argT(0))}
		}
	case "hasSuffix":
		if need(2) {
			return Val{T: B, Term: fmt.Sprintf("(str.suffixof %s %s)", argT(1), argT(0))}
		}
	case "contains":
		if need(2) {
			return Val{T: B, Term: fmt.Sprintf("(str.contains %s %s)", argT(0), argT(1))}
		}
	case "indexOf":
		if need(2) {
			return Val{T: I, Term: fmt.Sprintf("(str.indexof %s %s 0)", argT(0), argT(1))}
		}
	case "substr":
		if need(3) {
			return Val{T: S, Term: fmt.Sprintf("(str.substr %s %s %s)", argT(0), argT(1), argT(2))}
		}
	case "replaceFirst":
		if need(3) {
			return Val{T: S, Term: fmt.Sprintf("(str.replace %s %s %s)", argT(0), argT(1), argT(2))}
		}
	case "replaceAll":
		if need(3) {
			return Val{T: S, Term: fmt.Sprintf("(str.replace_all %s %s %s)", argT(0), argT(1), argT(2))}
		}
	case "itoa":
		if need(1) {
			return Val{T: S, Term: fmt.Sprintf("(str.from_int %s)", argT(0))}
		}
	case "string", "int", "uint":
		if need(1) {
			v := arg(0)
			return Val{T: map[string]types.Type{"string": S, "int": I, "uint": types.Typ[types.Uint]}[fname], Term: e.termOf(v)}
		}
	case "matches":
		// matches(s, regex): Go regexp.MatchString semantics; regex is a string literal or a package-level *regexp.Regexp
		if need(2) {
			pat := ""
			if sl, ok := x.Args[1].(*spec.StrLit); ok {
				pat = sl.Val
			} else {
				rv := arg(1)
				if rv.Re == nil {
					return e.fail(x, "matches: second argument must be a regex literal or a regexp variable with a constant pattern")
				}
				pat = *rv.Re
			}
			re, err := RegexToSMT(pat)
			if err != nil {
				return e.fail(x, "matches: %v", err)
			}
			mt := fmt.Sprintf("(str.in_re %s %s)", argT(0), re)
			if id, ok := x.Args[1].(*spec.Ident); ok && e.pkg != nil {
				vc.RegexUses = append(vc.RegexUses, RegexUse{Var: id.Name, Pkg: e.pkg.Path(), PkgName: e.pkg.Name(), Arg: argT(0), Match: mt})
			}
			return Val{T: B, Term: mt}
		}
	case "isStr", "isInt", "isBool", "isList", "isDict", "isPrimKind", "isNilAny":
		if need(1) {
			tester := map[string]string{"isStr": "astr", "isInt": "aint", "isBool": "abool", "isList": "alist", "isDict": "adict", "isPrimKind": "aprim", "isNilAny": "anil"}[fname]
			return Val{T: B, Term: fmt.Sprintf("((_ is %s) %s)", tester, argT(0))}
		}
	case "strOf":
		if need(1) {
			return Val{T: S, Term: fmt.Sprintf("(astr_v %s)", argT(0))}
		}
	case "intOf":
		if need(1) {
			return Val{T: I, Term: fmt.Sprintf("(aint_v %s)", argT(0))}
		}
	case "boolOf":
		if need(1) {
			return Val{T: B, Term: fmt.Sprintf("(abool_v %s)", argT(0))}
		}
	case "listOf":
		if need(1) {
			vc.declareFun("anylist", []string{"Int"}, "Slice_Any")
			at := types.Universe.Lookup("any").Type()
			vc.S.Sort(types.NewSlice(at))
			return Val{T: types.NewSlice(at), Term: fmt.Sprintf("(anylist (alist_id %s))", argT(0))}
		}
	case "dictOf":
		if need(1) {
			vc.declareFun("anydict", []string{"Int"}, "Map_String_Any")
			at := types.Universe.Lookup("any").Type()
			mt := types.NewMap(S, at)
			vc.S.Sort(mt)
			return Val{T: mt, Term: fmt.Sprintf("(anydict (adict_id %s))", argT(0))}
		}
	case "some":
		if need(1) {
			v := arg(0)
			if v.T == nil {
				return e.fail(x, "some of spec value")
			}
			pt := types.NewPointer(v.T)
			vc.S.Sort(pt)
			return Val{T: pt, Term: fmt.Sprintf("(some_%s %s)", vc.S.Sort(v.T), e.termOf(v))}
		}
	case "dom":
		if need(1) {
			v := arg(0)
			if mt, ok := v.T.Underlying().(*types.Map); ok {
				ms := vc.S.Sort(v.T)
				return Val{Sort: fmt.Sprintf("(Array %s Bool)", vc.S.Sort(mt.Key())), Term: mapDom(ms, e.termOf(v))}
			}
		}
	case "reFull", "langOf":
		// reFull("pat"): the set of strings matched by pat as a whole; langOf(re): the set of strings s with re.MatchString(s)
		if need(1) {
			pat := ""
			if sl, ok := x.Args[0].(*spec.StrLit); ok {
				pat = sl.Val
				if fname == "reFull" {
					pat = `\A(?:` + pat + `)\z`
				}
			} else {
				rv := arg(0)
				if rv.Re == nil {
					return e.fail(x, "%s: argument must be a regex literal or a regexp variable with a constant pattern", fname)
				}
				pat = *rv.Re
			}
			re, err := RegexToSMT(pat)
			if err != nil {
				return e.fail(x, "%s: %v", fname, err)
			}
			return Val{Sort: "RegLan", Term: re}
		}
	case "reLit":
		if need(1) {
			return Val{Sort: "RegLan", Term: fmt.Sprintf("(str.to_re %s)", argT(0))}
		}
	case "reCat", "reAlt", "reAnd":
		if len(x.Args) >= 1 {
			op := map[string]string{"reCat": "re.++", "reAlt": "re.union", "reAnd": "re.inter"}[fname]
			var ts []string
			for i := range x.Args {
				ts = append(ts, argT(i))
			}
			if len(ts) == 1 {
				return Val{Sort: "RegLan", Term: ts[0]}
			}
			return Val{Sort: "RegLan", Term: "(" + op + " " + strings.Join(ts, " ") + ")"}
		}
	case "reNot":
		if need(1) {
			return Val{Sort: "RegLan", Term: fmt.Sprintf("(re.comp %s)", argT(0))}
		}
	case "reOpt":
		if need(1) {
			return Val{Sort: "RegLan", Term: fmt.Sprintf("(re.opt %s)", argT(0))}
		}
	case "reStar":
		if need(1) {
			return Val{Sort: "RegLan", Term: fmt.Sprintf("(re.* %s)", argT(0))}
		}
	case "rePlus":
		if need(1) {
			return Val{Sort: "RegLan", Term: fmt.Sprintf("(re.+ %s)", argT(0))}
		}
	case "inLang":
		if need(2) {
			return Val{T: B, Term: fmt.Sprintf("(str.in_re %s %s)", argT(0), argT(1))}
		}
	case "yamlErr", "yamlValue":
		// yamlErr(b, T) / yamlValue(b, T): error and decoded value of yaml.Unmarshal(b, &x) for x of the named type T
		// (the decoder is a function of the bytes and the target type; see the model of yaml.Unmarshal)
		if need(2) {
			t, srt, ok := e.resolveType(spec.TypeExpr{Kind: "name", Name: x.Args[1].String()})
			if !ok {
				return e.fail(x, "%s: unknown type %s", fname, x.Args[1].String())
			}
			en, vn := yamlFuncs(vc, srt)
			if fname == "yamlErr" {
				return Val{T: errorType(), Term: fmt.Sprintf("(%s %s)", en, argT(0))}
			}
			return Val{T: t, Term: fmt.Sprintf("(%s %s)", vn, argT(0))}
		}
	case "decodeErr", "decoded":
		// decodeErr(f, "T") / decoded(f, "T"): error and decoded value of the decode callback f called with a *T
		if need(2) {
			sl, ok := x.Args[1].(*spec.StrLit)
			if !ok {
				return e.fail(x, "%s: second argument must be a string literal naming the target type", fname)
			}
			te, err := spec.ParseType(sl.Val)
			if err != nil {
				return e.fail(x, "%s: %v", fname, err)
			}
			t, srt, ok := e.resolveType(te)
			if !ok || t == nil {
				return e.fail(x, "%s: unknown type %s", fname, sl.Val)
			}
			en, vn := decodeFuncs(vc, srt)
			f := arg(0)
			if fname == "decodeErr" {
				return Val{T: errorType(), Term: fmt.Sprintf("(%s %s)", en, e.termOf(f))}
			}
			return Val{T: t, Term: fmt.Sprintf("(%s %s)", vn, e.termOf(f))}
		}
	case "isMethodOf":
		// isMethodOf(n, "import/path.Type"): n is the name of an exported method of *Type (from go/types; A10)
		if need(2) {
			sl, ok := x.Args[1].(*spec.StrLit)
			if !ok {
				return e.fail(x, "isMethodOf: second argument must be a string literal")
			}
			i := strings.LastIndex(sl.Val, ".")
			if i < 0 {
				return e.fail(x, "isMethodOf: want import/path.Type")
			}
			p := vc.W.PkgByPath[sl.Val[:i]]
			if p == nil || p.Types == nil {
				return e.fail(x, "isMethodOf: package %s is not loaded", sl.Val[:i])
			}
			tn, ok := p.Types.Scope().Lookup(sl.Val[i+1:]).(*types.TypeName)
			if !ok {
				return e.fail(x, "isMethodOf: no type %s", sl.Val)
			}
			ms := types.NewMethodSet(types.NewPointer(tn.Type()))
			var alts []string
			n := argT(0)
			for k := 0; k < ms.Len(); k++ {
				if ms.At(k).Obj().Exported() {
					alts = append(alts, fmt.Sprintf("(= %s %s)", n, strLit(ms.At(k).Obj().Name())))
				}
			}
			vc.Assumed["A10: reflect enumerates exactly the exported methods go/types reports for *"+sl.Val] = true
			return Val{T: B, Term: or(alts...)}
		}
	case "implements":
		// implements(x, T): the dynamic type of the `any` / interface value x implements the interface type T
		// (the same predicate an unchecked assertion x.(T) is obliged to establish)
		if need(2) {
			t, _, ok := e.resolveType(spec.TypeExpr{Kind: "name", Name: x.Args[1].String()})
			if !ok || t == nil {
				return e.fail(x, "implements: unknown type %s", x.Args[1].String())
			}
			if _, isIface := t.Underlying().(*types.Interface); !isIface {
				return e.fail(x, "implements: %s is not an interface type", x.Args[1].String())
			}
			v := arg(0)
			switch e.sortOf(v) {
			case "Any":
				vc.declareFun("implements", []string{"Any", "Int"}, "Bool")
				return Val{T: B, Term: fmt.Sprintf("(implements %s %s)", e.termOf(v), vc.typeTag(t))}
			case "Iface", "Err":
				n := "implements_" + e.sortOf(v)
				vc.declareFun(n, []string{e.sortOf(v), "Int"}, "Bool")
				return Val{T: B, Term: fmt.Sprintf("(%s %s %s)", n, e.termOf(v), vc.typeTag(t))}
			}
			return e.fail(x, "implements: first argument must be an interface value")
		}
	case "boxed":
		// boxed(x): x converted to `any`, as the conversion instruction boxes it
		if need(1) {
			if e.fr == nil {
				return e.fail(x, "boxed: only inside a function contract")
			}
			v := arg(0)
			at := types.Universe.Lookup("any").Type()
			if v.T == nil {
				return e.fail(x, "boxed: argument has no Go type")
			}
			if _, isIface := v.T.Underlying().(*types.Interface); isIface {
				return e.fr.convertIface(Val{T: v.T, Term: e.termOf(v)}, at, e.state())
			}
			return e.fr.makeInterface(Val{T: v.T, Term: e.termOf(v)}, v.T, at, e.state())
		}
	case "toBytes":
		// toBytes(s): []byte(s), the same term the conversion instruction produces
		if need(1) {
			bt := types.NewSlice(types.Typ[types.Uint8])
			vc.S.Sort(bt)
			vc.declareFun("to_bytes", []string{"String"}, "Slice_Int")
			return Val{T: bt, Term: fmt.Sprintf("(to_bytes %s)", argT(0))}
		}
	case "fromBytes":
		// fromBytes(b): string(b)
		if need(1) {
			vc.declareFun("string_of_bytes", []string{"Slice_Int"}, "String")
			return Val{T: S, Term: fmt.Sprintf("(string_of_bytes %s)", argT(0))}
		}
	case "runeLen":
		// runeLen(s): len([]rune(s))
		if need(1) {
			vc.declareFun("to_runes", []string{"String"}, "Slice_Int")
			vc.S.Sort(types.NewSlice(types.Typ[types.Rune]))
			return Val{T: I, Term: fmt.Sprintf("(len_Slice_Int (to_runes %s))", argT(0))}
		}
	case "tlen":
		if e.noState {
			return e.fail(x, "a spec function cannot read the effect trace (it is defined once, not per state)")
		}
		if need(0) {
			_, lc := vc.traceCells(e.state())
			return Val{T: I, Term: e.state().cells[lc]}
		}
	case "evIs":
		// evIs(k, "key"): event k is a call of the named effectful operation
		if e.noState {
			return e.fail(x, "a spec function cannot read the effect trace (it is defined once, not per state)")
		}
		if need(2) {
			sl, ok := x.Args[1].(*spec.StrLit)
			if !ok {
				return e.fail(x, "evIs: second argument must be a string literal naming the operation")
			}
			if sl.Val != "dyncall" && !vc.W.isEffectKey(sl.Val) {
				// a misspelt operation would make a negative clause vacuously true
				return e.fail(x, "evIs: %q is not an operation declared `effect`", sl.Val)
			}
			tc, _ := vc.traceCells(e.state())
			return Val{T: B, Term: fmt.Sprintf("(= (ev_tag (select %s %s)) %s)", e.state().cells[tc], argT(0), vc.effectTag(sl.Val))}
		}
	case "evPtrIs":
		// evPtrIs(k, v): the first pointer argument of the call recorded as event k is &v (v a variable of the function)
		if need(2) {
			loc, _ := e.compileLoc(x.Args[1])
			if loc == nil || len(loc.Path) != 0 {
				return e.fail(x, "evPtrIs: second argument must name a variable whose address is taken")
			}
			tc, _ := vc.traceCells(e.state())
			return Val{T: B, Term: fmt.Sprintf("(= (ev_ptr (select %s %s)) %d)", e.state().cells[tc], argT(0), loc.Cell.id)}
		}
	case "evArg":
		// evArg(k, T): the first non-string argument of the call recorded as event k, as a value of type T
		if need(2) {
			t, srt, ok := e.resolveType(spec.TypeExpr{Kind: "name", Name: x.Args[1].String()})
			if !ok {
				return e.fail(x, "evArg: unknown type %s", x.Args[1].String())
			}
			tc, _ := vc.traceCells(e.state())
			_, unbox := vc.evBox(srt)
			return Val{T: t, Sort: sortIfSpec(t, srt), Term: fmt.Sprintf("(%s (ev_arg (select %s %s)))", unbox, e.state().cells[tc], argT(0))}
		}
	case "evI1":
		// evI1(k): the first integer argument of the call recorded as event k
		if e.noState {
			return e.fail(x, "a spec function cannot read the effect trace (it is defined once, not per state)")
		}
		if need(1) {
			tc, _ := vc.traceCells(e.state())
			return Val{T: I, Term: fmt.Sprintf("(ev_i1 (select %s %s))", e.state().cells[tc], argT(0))}
		}
	case "evB1", "evFrom":
		// evB1(k): the first boolean argument of the call recorded as event k; evFrom(k): the index of the event whose
		// pointer result is the receiver (or first pointer argument) of that call, -1 if there is none
		if e.noState {
			return e.fail(x, "a spec function cannot read the effect trace (it is defined once, not per state)")
		}
		if need(1) {
			tc, _ := vc.traceCells(e.state())
			if fname == "evB1" {
				return Val{T: B, Term: fmt.Sprintf("(ev_b1 (select %s %s))", e.state().cells[tc], argT(0))}
			}
			return Val{T: I, Term: fmt.Sprintf("(ev_from (select %s %s))", e.state().cells[tc], argT(0))}
		}
	case "evRecv", "evErr", "evS1", "evS2", "evS3":
		if e.noState {
			return e.fail(x, "a spec function cannot read the effect trace (it is defined once, not per state)")
		}
		if need(1) {
			tc, _ := vc.traceCells(e.state())
			sel := map[string]string{"evRecv": "ev_recv", "evErr": "ev_err", "evS1": "ev_s1", "evS2": "ev_s2", "evS3": "ev_s3"}[fname]
			term := fmt.Sprintf("(%s (select %s %s))", sel, e.state().cells[tc], argT(0))
			switch fname {
			case "evRecv":
				return Val{Sort: "Iface", Term: term}
			case "evErr":
				return Val{T: types.Universe.Lookup("error").Type(), Term: term}
			}
			return Val{T: S, Term: term}
		}
	case "apply":
		// apply(f, args...): the result of calling the function value f (see dynCall)
		if len(x.Args) >= 1 {
			f := arg(0)
			sig, ok := f.T.Underlying().(*types.Signature)
			if !ok || sig.Results().Len() != 1 {
				return e.fail(x, "apply: first argument must be a function value with one result")
			}
			name, as, rs := vc.dynName(sig)
			vc.declareFun(name, append([]string{"Int"}, as...), rs[0])
			ts := []string{e.termOf(f)}
			for i := 1; i < len(x.Args); i++ {
				ts = append(ts, argT(i))
			}
			return Val{T: sig.Results().At(0).Type(), Term: "(" + name + " " + strings.Join(ts, " ") + ")"}
		}
	case "edge":
		if need(3) {
			return Val{T: B, Term: fmt.Sprintf("(select (select %s %s) %s)", argT(0), argT(1), argT(2))}
		}
	case "addEdge":
		if need(3) {
			return Val{Sort: "(Array Node (Array Node Bool))", Term: fmt.Sprintf("(store %s %s (store (select %s %s) %s true))", argT(0), argT(1), argT(0), argT(1), argT(2))}
		}
	case "noEdges":
		if need(0) {
			return Val{Sort: "(Array Node (Array Node Bool))", Term: "((as const (Array Node (Array Node Bool))) ((as const (Array Node Bool)) false))"}
		}
	case "elems":
		// elems(xs): the set of elements of a []string
		if need(1) {
			v := arg(0)
			if v.T == nil || vc.S.Sort(v.T) != "Slice_String" {
				return e.fail(x, "elems() needs a []string")
			}
			return Val{Sort: "(Array String Bool)", Term: vc.elemsOf(e.termOf(v))}
		}
	case "union":
		if need(2) {
			return Val{Sort: "(Array String Bool)", Term: vc.setUnion(argT(0), argT(1))}
		}
	case "emptyset":
		if need(0) {
			return Val{Sort: "(Array String Bool)", Term: "((as const (Array String Bool)) false)"}
		}
	case "add":
		if need(2) {
			st := arg(0)
			return Val{Sort: st.Sort, Term: fmt.Sprintf("(store %s %s true)", st.Term, argT(1))}
		}
	case "entry":
		if need(1) && e.loop != nil && e.loop.entryState != nil {
			savedSt := e.st
			e.st = e.loop.entryState
			savedOld := e.inOld
			e.inOld = false
			v := e.compile(x.Args[0])
			if v.Sort == "" && (v.Obj != nil || v.Loc != nil) {
				v = Val{T: v.T, Term: vc.term(e.loop.entryState, v)}
			}
			e.st = savedSt
			e.inOld = savedOld
			return v
		}
		return e.fail(x, "entry() outside a loop invariant")
	}
	// method call on a value: x.M(args) for a pure method under contract
	if sel, ok := x.Fun.(*spec.Select); ok {
		if id, isID := sel.X.(*spec.Ident); !isID || e.lookupObj(id.Name+"."+sel.Name) == nil || e.isValueName(id.Name) {
			recv := e.compile(sel.X)
			if recv.T != nil {
				if n, isNamed := types.Unalias(recv.T).(*types.Named); isNamed && n.Obj().Pkg() != nil {
					if _, isIface := n.Underlying().(*types.Interface); isIface {
						key := shortPath(n.Obj().Pkg().Path()) + ":" + n.Obj().Name() + "." + sel.Name
						if !inRepoPath(n.Obj().Pkg().Path()) {
							key = n.Obj().Pkg().Path() + "." + n.Obj().Name() + "." + sel.Name
						}
						if sp, ok := vc.W.Specs[key]; ok && sp.Pure {
							return e.callIfacePure(x, key, n, sel.Name, recv, e.compileArgs(x.Args))
						}
					}
				}
				if m := e.lookupMethod(recv.T, sel.Name); m != nil {
					return e.callPureVals(x, m, append([]Val{recv}, e.compileArgs(x.Args)...))
				}
			}
		}
	}
	// user spec function
	if sf, ok := vc.W.SpecFns[fname]; ok {
		return e.callSpecFn(x, sf)
	}
	// spec datatype constructor / tester
	for _, dt := range vc.S.Extra {
		for _, c := range dt.Ctors {
			if c.Name == fname {
				var ts []string
				for i := range x.Args {
					ts = append(ts, argT(i))
				}
				if len(ts) == 0 {
					return Val{Sort: dt.Name, Term: c.Name}
				}
				return Val{Sort: dt.Name, Term: "(" + c.Name + " " + strings.Join(ts, " ") + ")"}
			}
			if "is_"+c.Name == fname && need(1) {
				return Val{T: B, Term: fmt.Sprintf("((_ is %s) %s)", c.Name, argT(0))}
			}
		}
	}
	// pure repo function (by contract): UF application + instantiated ensures
	if f := e.lookupRepoFunc(x.Fun); f != nil {
		return e.callPure(x, f)
	}
	// struct literal-like constructor for Go struct types: T(f1, f2, ...)
	if tn := e.lookupTypeName(fname); tn != nil {
		if st := structOf(tn.Type()); st != nil && st.NumFields() == len(x.Args) {
			srt := vc.S.Sort(tn.Type())
			var ts []string
			for i := range x.Args {
				a := arg(i)
				a, _ = e.unifyNil(a, Val{T: st.Field(i).Type()})
				if a.Term == "nil" {
					a = Val{T: st.Field(i).Type(), Term: vc.S.Zero(st.Field(i).Type())}
				}
				ts = append(ts, e.termOf(a))
			}
			if len(ts) == 0 {
				return Val{T: tn.Type(), Term: "mk_" + srt}
			}
			return Val{T: tn.Type(), Term: "(mk_" + srt + " " + strings.Join(ts, " ") + ")"}
		}
		if len(x.Args) == 1 {
			v := arg(0)
			return Val{T: tn.Type(), Term: e.termOf(v)}
		}
	}
	return e.fail(x, "unknown function %s/%d", fname, len(x.Args))
}

func (e *SpecEnv) callSpecFn(x *spec.Call, sf *spec.SpecFunc) Val {
	vc := e.vc
	if len(sf.Params) != len(x.Args) {
		return e.fail(x, "spec %s expects %d arguments", sf.Name, len(sf.Params))
	}
	vc.W.declareSpecFn(vc, sf)
	var ts []string
	for i := range x.Args {
		a := e.compile(x.Args[i])
		pt, _, _ := e.specEnvFor(sf).resolveType(sf.Params[i].Type)
		if a.Term == "nil" && pt != nil {
			a = Val{T: pt, Term: vc.S.Zero(pt)}
		}
		ts = append(ts, e.termOf(a))
	}
	rt, rs, _ := e.specEnvFor(sf).resolveType(sf.Result)
	name := "spec_" + sf.Name
	term := name
	if len(ts) > 0 {
		term = "(" + name + " " + strings.Join(ts, " ") + ")"
	}
	if rt != nil {
		return Val{T: rt, Term: term}
	}
	return Val{Sort: rs, Term: term}
}

func (e *SpecEnv) specEnvFor(sf *spec.SpecFunc) *SpecEnv {
	env := &SpecEnv{vc: e.vc, st: NewState(), names: map[string]Val{}, bound: map[string]Val{}}
	if sf.Pkg != "" {
		if p := e.vc.W.PkgByPath[sf.Pkg]; p != nil {
			env.pkg = p.Types
		}
	} else {
		env.pkg = e.pkg
	}
	return env
}

// declareSpecFn emits the definition (or declaration) of a spec function once per VC.
func (w *World) declareSpecFn(vc *VC, sf *spec.SpecFunc) {
	key := "specfn:" + sf.Name
	if vc.declOf[key] {
		return
	}
	vc.declOf[key] = true
	env := &SpecEnv{vc: vc, st: NewState(), names: map[string]Val{}, bound: map[string]Val{}, noState: true}
	if sf.Pkg != "" {
		if p := w.PkgByPath[sf.Pkg]; p != nil {
			env.pkg = p.Types
		}
	}
	var params []string
	var sorts []string
	for _, p := range sf.Params {
		t, srt, ok := env.resolveType(p.Type)
		if !ok {
			vc.outside("spec %s: unknown type %s", sf.Name, p.Type)
			return
		}
		env.bound[p.Name] = Val{T: t, Sort: sortIfSpec(t, srt), Term: "?" + p.Name}
		params = append(params, fmt.Sprintf("(?%s %s)", p.Name, srt))
		sorts = append(sorts, srt)
	}
	_, rs, ok := env.resolveType(sf.Result)
	if !ok {
		vc.outside("spec %s: unknown result type %s", sf.Name, sf.Result)
		return
	}
	name := "spec_" + sf.Name
	if sf.Body == nil {
		vc.decls = append(vc.decls, fmt.Sprintf("(declare-fun %s (%s) %s)", name, strings.Join(sorts, " "), rs))
		vc.Assumed["uninterpreted spec function: "+sf.Name] = true
		return
	}
	// Body may reference other spec functions: they get declared first (recursion is not supported).
	pos := len(vc.decls)
	body := env.compile(sf.Body)
	_ = pos
	bt := env.termOf(body)
	if (strings.Contains(bt, "(forall ") || strings.Contains(bt, "(exists ")) && len(params) > 0 {
		// opaque by default: an uninterpreted symbol plus its definitional axiom, unfolded by need (E-matching
		// on applications) instead of macro-expanded into every use
		vc.decls = append(vc.decls, fmt.Sprintf("(declare-fun %s (%s) %s)", name, strings.Join(sorts, " "), rs))
		var as []string
		for _, p := range sf.Params {
			as = append(as, "?"+p.Name)
		}
		app := "(" + name + " " + strings.Join(as, " ") + ")"
		if rs == "Bool" {
			// two implications instead of an equality: every quantifier of the body then has a definite polarity
			vc.axioms = append(vc.axioms, fmt.Sprintf("(forall (%s) (! (=> %s %s) :pattern (%s)))", strings.Join(params, " "), app, bt, app))
			// the folding direction gets no explicit pattern: when the body is existential its bound variables
			// become universal here and must be allowed to take part in trigger selection
			if strings.HasPrefix(bt, "(exists ") {
				vc.axioms = append(vc.axioms, fmt.Sprintf("(forall (%s) (=> %s %s))", strings.Join(params, " "), bt, app))
			} else {
				vc.axioms = append(vc.axioms, fmt.Sprintf("(forall (%s) (! (=> %s %s) :pattern (%s)))", strings.Join(params, " "), bt, app, app))
			}
		} else {
			vc.axioms = append(vc.axioms, fmt.Sprintf("(forall (%s) (! (= %s %s) :pattern (%s)))", strings.Join(params, " "), app, bt, app))
		}
		return
	}
	vc.decls = append(vc.decls, fmt.Sprintf("(define-fun %s (%s) %s %s)", name, strings.Join(params, " "), rs, bt))
}

func (e *SpecEnv) lookupRepoFunc(fun spec.Expr) *ssa.Function {
	name := fun.String()
	obj := e.lookupObj(name)
	if fo, ok := obj.(*types.Func); ok {
		return e.vc.W.Prog.FuncValue(fo)
	}
	return nil
}

func (e *SpecEnv) isValueName(name string) bool {
	if _, ok := e.bound[name]; ok {
		return true
	}
	if _, ok := e.names[name]; ok {
		return true
	}
	return e.fr != nil && e.fr.hasLocal(name)
}

func (e *SpecEnv) compileArgs(xs []spec.Expr) []Val {
	var out []Val
	for _, a := range xs {
		out = append(out, e.compile(a))
	}
	return out
}

func (e *SpecEnv) lookupMethod(t types.Type, name string) *ssa.Function {
	prog := e.vc.W.Prog
	for _, tt := range []types.Type{t, types.NewPointer(t)} {
		ms := prog.MethodSets.MethodSet(tt)
		for i := 0; i < ms.Len(); i++ {
			if ms.At(i).Obj().Name() == name {
				return prog.MethodValue(ms.At(i))
			}
		}
	}
	return nil
}

// callPure applies a pure function's contract inside a specification.
func (e *SpecEnv) callPure(x *spec.Call, f *ssa.Function) Val {
	vc := e.vc
	var args []Val
	for i := range x.Args {
		a := e.compile(x.Args[i])
		if a.Term == "nil" && i < f.Signature.Params().Len() {
			pt := f.Signature.Params().At(i).Type()
			a = Val{T: pt, Term: vc.S.Zero(pt)}
		}
		args = append(args, a)
	}
	return e.callPureVals(x, f, args)
}

func (e *SpecEnv) callPureVals(x *spec.Call, f *ssa.Function, args []Val) Val {
	vc := e.vc
	sp := vc.W.SpecFor(f)
	if sp == nil || !sp.Pure {
		return e.fail(x, "%s is not a pure function under contract", f.Name())
	}
	for i, a := range args {
		if a.Sort == "" && (a.Obj != nil || a.Loc != nil) {
			args[i] = Val{T: a.T, Term: e.termOf(a)}
		}
	}
	// instantiate a generic callee by the argument types
	sig := f.Signature
	if f.TypeParams().Len() > 0 {
		targs := inferTypeArgs(f, args)
		if targs == nil {
			return e.fail(x, "cannot infer type arguments of %s", f.Name())
		}
		it, err := types.Instantiate(nil, f.Object().Type(), targs, false)
		if err != nil {
			return e.fail(x, "instantiate %s: %v", f.Name(), err)
		}
		sig = it.(*types.Signature)
	}
	// an argument passed to an interface-typed parameter is boxed as the call instruction would box it
	if e.fr != nil && f.Signature.Recv() == nil {
		for i := range args {
			if i >= sig.Params().Len() || args[i].T == nil {
				continue
			}
			pt := sig.Params().At(i).Type()
			if _, isIface := pt.Underlying().(*types.Interface); !isIface {
				continue
			}
			if _, argIface := args[i].T.Underlying().(*types.Interface); argIface || e.sortOf(args[i]) == vc.S.Sort(pt) {
				continue
			}
			args[i] = e.fr.makeInterface(Val{T: args[i].T, Term: e.termOf(args[i])}, args[i].T, pt, e.state())
		}
	}
	var sorts, terms []string
	for _, a := range args {
		if a.Re != nil {
			// a regexp with a constant pattern is passed as its pattern (as at call sites)
			sorts, terms = append(sorts, "String"), append(terms, strLit(*a.Re))
			continue
		}
		sorts = append(sorts, e.sortOf(a))
		terms = append(terms, e.termOf(a))
	}
	var results []Val
	var apps []string
	for i := 0; i < sig.Results().Len(); i++ {
		rt := sig.Results().At(i).Type()
		n := vc.pureName(f, args, i)
		vc.declareFun(n, sorts, vc.S.Sort(rt))
		app := "(" + n + " " + strings.Join(terms, " ") + ")"
		if len(terms) == 0 {
			app = n
		}
		apps = append(apps, app)
		results = append(results, Val{T: rt, Term: app})
	}
	if len(results) == 0 {
		return e.fail(x, "%s has no result", f.Name())
	}
	app := apps[0]
	// instantiate the ensures for closed applications (no bound variables)
	if !strings.Contains(strings.Join(apps, " "), "?") {
		key := "pureinst:" + app
		if !vc.wf[key] {
			vc.wf[key] = true
			for i := range results {
				results[i].Term = vc.define("pr", vc.S.Sort(results[i].T), apps[i])
				vc.pureTerm[apps[i]] = results[i].Term
			}
			env := &SpecEnv{vc: vc, fr: nil, st: e.state(), old: e.state(), names: map[string]Val{}, bound: map[string]Val{}, pkg: calleePkg(f), owner: f}
			if f.TypeParams().Len() > 0 {
				if targs := inferTypeArgs(f, args); targs != nil {
					env.typeArgs = map[string]types.Type{}
					for i := 0; i < f.TypeParams().Len(); i++ {
						env.typeArgs[f.TypeParams().At(i).Obj().Name()] = targs[i]
					}
				}
			}
			for i, nme := range calleeParamNames(f, sp) {
				if i < len(args) {
					env.names[nme] = args[i]
				}
			}
			env.results = results
			env.resultNames = resultNames(f, sp)
			for _, en := range sp.Ensures {
				if en.Local {
					continue // about the callee's own variables: not part of what callers may assume
				}
				vc.fact(env.compileBool(en.Expr))
			}
		} else {
			for i := range results {
				if t, ok := vc.pureTerm[apps[i]]; ok {
					results[i].Term = t
				}
			}
		}
	}
	if len(results) == 1 {
		return results[0]
	}
	return Val{T: sig.Results(), Tuple: results}
}

func inferTypeArgs(f *ssa.Function, args []Val) []types.Type {
	tps := f.TypeParams()
	out := make([]types.Type, tps.Len())
	ps := f.Signature.Params()
	var unify func(pt, at types.Type)
	unify = func(pt, at types.Type) {
		if at == nil {
			return
		}
		switch p := pt.(type) {
		case *types.TypeParam:
			for i := 0; i < tps.Len(); i++ {
				if tps.At(i) == p && out[i] == nil {
					out[i] = at
				}
			}
		case *types.Pointer:
			if a, ok := at.Underlying().(*types.Pointer); ok {
				unify(p.Elem(), a.Elem())
			}
		case *types.Slice:
			if a, ok := at.Underlying().(*types.Slice); ok {
				unify(p.Elem(), a.Elem())
			}
		case *types.Map:
			if a, ok := at.Underlying().(*types.Map); ok {
				unify(p.Key(), a.Key())
				unify(p.Elem(), a.Elem())
			}
		}
	}
	for i := 0; i < ps.Len() && i < len(args); i++ {
		unify(ps.At(i).Type(), args[i].T)
	}
	for _, t := range out {
		if t == nil {
			return nil
		}
	}
	return out
}

// compileLoc compiles an lvalue expression (for modifies clauses).
func (e *SpecEnv) compileLoc(x spec.Expr) (*Loc, types.Type) {
	vc := e.vc
	switch x := x.(type) {
	case *spec.Unary:
		if x.Op == "*" {
			v := e.compile(x.X)
			if v.Loc != nil {
				return v.Loc, v.T.Underlying().(*types.Pointer).Elem()
			}
			if v.Home != nil {
				return v.Home.extend(Step{Kind: StepOptVal, T: v.T}), v.T.Underlying().(*types.Pointer).Elem()
			}
			// value pointer: nothing the caller can observe
			return nil, nil
		}
	case *spec.Ident:
		if g, ok := vc.W.Ghosts[x.Name]; ok {
			if _, srt, ok := e.resolveType(g.Type); ok {
				return &Loc{Cell: vc.ghostCell(e.state(), x.Name, srt)}, nil
			}
		}
		if e.fr != nil {
			if loc, t, ok := e.fr.localLoc(x.Name); ok {
				return loc, t
			}
			if nn := vc.W.renamed(e.ownerFn(), x.Name); nn != "" {
				if loc, t, ok := e.fr.localLoc(nn); ok {
					return loc, t
				}
			}
		}
		v := e.compile(x)
		if v.Obj != nil {
			return &Loc{Cell: v.Obj}, v.T
		}
		if v.Home != nil {
			return v.Home, v.T
		}
		return nil, nil
	case *spec.Select:
		base := e.compile(x.X)
		var loc *Loc
		var t types.Type
		if base.T != nil {
			if pt, ok := base.T.Underlying().(*types.Pointer); ok {
				if base.Loc != nil {
					loc, t = base.Loc, pt.Elem()
				} else if base.Home != nil {
					loc, t = base.Home.extend(Step{Kind: StepOptVal, T: base.T}), pt.Elem()
				} else {
					return nil, nil
				}
			}
		}
		if loc == nil {
			loc, t = e.compileLoc(x.X)
		}
		if loc == nil {
			return nil, nil
		}
		st := structOf(t)
		if st == nil {
			e.fail(x, "modifies: %s is not a struct", t)
			return nil, nil
		}
		for i := 0; i < st.NumFields(); i++ {
			if st.Field(i).Name() == x.Name {
				return loc.extend(Step{Kind: StepField, T: t, Field: i}), st.Field(i).Type()
			}
		}
	}
	e.fail(x, "unsupported modifies target")
	_ = vc
	return nil, nil
}

// callIfacePure applies a pure interface method inside a specification (same symbol as applyIfaceContract uses).
func (e *SpecEnv) callIfacePure(x *spec.Call, key string, n *types.Named, method string, recv Val, args []Val) Val {
	vc := e.vc
	iface := n.Underlying().(*types.Interface)
	var sig *types.Signature
	for i := 0; i < iface.NumMethods(); i++ {
		if iface.Method(i).Name() == method {
			sig = iface.Method(i).Type().(*types.Signature)
		}
	}
	if sig == nil || sig.Results().Len() == 0 {
		return e.fail(x, "interface method %s has no result to use in a contract", method)
	}
	all := append([]Val{recv}, args...)
	var sorts, terms []string
	for _, a := range all {
		sorts = append(sorts, e.sortOf(a))
		terms = append(terms, e.termOf(a))
	}
	var res []Val
	for i := 0; i < sig.Results().Len(); i++ {
		rt := sig.Results().At(i).Type()
		name := "pure_" + sanitize(key)
		if i > 0 {
			name += fmt.Sprintf("_r%d", i)
		}
		vc.declareFun(name, sorts, vc.S.Sort(rt))
		res = append(res, Val{T: rt, Term: "(" + name + " " + strings.Join(terms, " ") + ")"})
	}
	if len(res) == 1 {
		return res[0]
	}
	return Val{T: sig.Results(), Tuple: res}
}

// decodeFuncs declares the two uninterpreted functions that model a decode callback into a value of sort srt.
func decodeFuncs(vc *VC, srt string) (errFn, valFn string) {
	errFn, valFn = "decode_err_"+srt, "decode_val_"+srt
	vc.declareFun(errFn, []string{"Int"}, "Err")
	vc.declareFun(valFn, []string{"Int"}, srt)
	return
}

// yamlFuncs declares the two uninterpreted functions that model yaml.Unmarshal into a value of sort srt.
func yamlFuncs(vc *VC, srt string) (errFn, valFn string) {
	errFn, valFn = "yaml_err_"+srt, "yaml_val_"+srt
	vc.declareFun(errFn, []string{"Slice_Int"}, "Err")
	vc.declareFun(valFn, []string{"Slice_Int"}, srt)
	return
}

func errorType() types.Type { return types.Universe.Lookup("error").Type() }
