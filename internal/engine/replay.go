package engine

// ReplayInfo records the attempt to replay a solver counterexample on the real code.
type ReplayInfo struct {
	Confirmed bool              `json:"confirmed"`
	Inputs    map[string]string `json:"inputs,omitempty"`
	Predicted map[string]string `json:"predicted,omitempty"`
	Package   string            `json:"package,omitempty"`
	Test      string            `json:"test,omitempty"`
	Output    string            `json:"output,omitempty"`
	Note      string            `json:"note,omitempty"`
}

// TryReplay is replaced by the model-driven implementation in replay_model.go.
var TryReplay = func(r *Result, repoDir, scratch string) *ReplayInfo { return nil }

// RunReplayTest runs a generated in-package test against the real code.
var RunReplayTest = func(repoDir, pkg, test, scratch string) (string, bool) { return "replay not available", false }
