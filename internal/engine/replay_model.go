package engine

import (
	"bytes"
	"context"
	"encoding/json"
	"fmt"
	"go/types"
	"os"
	"os/exec"
	"path/filepath"
	"sort"
	"strconv"
	"strings"
	"time"

	"golang.org/x/tools/go/ssa"
)

// ReplayCtx is what a function unit records so that a solver model can be turned into a
// concrete call of the real function.
type ReplayCtx struct {
	Fn      *ssa.Function
	Params  []ReplayVar
	Results []ReplayVar
	RetCond string
}

type ReplayVar struct {
	Name     string
	T        types.Type
	Term     string // value term (pointee term for pointer parameters)
	NilTerm  string // pointer parameters: Bool term "is nil" ("" = not a pointer parameter)
	PostTerm string // pointer parameters: pointee after the call (predicted)
}

// node is one requested value in the model: a tree following the Go type.
type node struct {
	kind     string // bool int string struct opt slice map any err unsupported
	t        types.Type
	term     string
	children []*node           // struct fields / opt value / slice elems / any payloads
	keys     []string          // map: key constants
	vals     []*node           // map: values per key
	extra    map[string]string // named auxiliary terms (len, nil, testers)
}

type shaper struct {
	vc          *VC
	asserts     []string // finiteness constraints
	decls       []string
	terms       []string // terms to get-value
	n           int
	unsupported []string
	nodes       int             // nodes shaped so far (a model request is abandoned beyond maxReplayNodes)
	visiting    map[string]bool // struct sorts on the current path (recursive types are not replayed)
}

const maxReplayNodes = 4000

const replaySliceBound = 3
const replayMapBound = 3

func (s *shaper) want(t string) string {
	s.terms = append(s.terms, t)
	return t
}

func (s *shaper) shape(t types.Type, term string, depth int) *node {
	t = types.Unalias(t)
	S := s.vc.S
	srt := S.Sort(t)
	nd := &node{t: t, term: term, extra: map[string]string{}}
	s.nodes++
	if s.nodes > maxReplayNodes {
		nd.kind = "unsupported"
		return nd
	}
	switch srt {
	case "Bool":
		nd.kind = "bool"
		s.want(term)
		return nd
	case "Int":
		if _, isSig := t.Underlying().(*types.Signature); isSig {
			nd.kind = "unsupported"
			return nd
		}
		if b, ok := t.Underlying().(*types.Basic); ok && b.Info()&types.IsFloat != 0 {
			nd.kind = "float"
			return nd
		}
		nd.kind = "int"
		s.want(term)
		return nd
	case "String":
		nd.kind = "string"
		s.want(term)
		return nd
	case "Err":
		nd.kind = "err"
		nd.extra["nil"] = s.want(fmt.Sprintf("(= %s enil)", term))
		return nd
	case "Iface":
		nd.kind = "iface"
		nd.extra["nil"] = s.want(fmt.Sprintf("(= %s inil)", term))
		return nd
	case "Any":
		nd.kind = "any"
		for _, c := range []string{"anil", "astr", "abool", "aint", "aprim", "alist", "adict", "aother"} {
			nd.extra["is_"+c] = s.want(fmt.Sprintf("((_ is %s) %s)", c, term))
		}
		nd.extra["str"] = s.want(fmt.Sprintf("(astr_v %s)", term))
		nd.extra["bool"] = s.want(fmt.Sprintf("(abool_v %s)", term))
		nd.extra["int"] = s.want(fmt.Sprintf("(aint_v %s)", term))
		nd.extra["kind"] = s.want(fmt.Sprintf("(aprim_kind %s)", term))
		nd.extra["prim"] = s.want(fmt.Sprintf("(aprim_id %s)", term))
		if depth < 2 && s.vc.declOf["anylist"] {
			at := types.Universe.Lookup("any").Type()
			nd.children = append(nd.children, s.shape(types.NewSlice(at), fmt.Sprintf("(anylist (alist_id %s))", term), depth+1))
		} else {
			s.asserts = append(s.asserts, fmt.Sprintf("(not ((_ is alist) %s))", term))
		}
		// dictionaries and opaque dynamic types are excluded from replayed inputs
		s.asserts = append(s.asserts, fmt.Sprintf("(not ((_ is adict) %s))", term), fmt.Sprintf("(not ((_ is aother) %s))", term))
		s.asserts = append(s.asserts, fmt.Sprintf("(=> ((_ is aprim) %s) (or (= (aprim_kind %s) 11) (= (aprim_kind %s) 6)))", term, term, term))
		return nd
	}
	switch u := t.Underlying().(type) {
	case *types.Struct:
		if s.visiting == nil {
			s.visiting = map[string]bool{}
		}
		if s.visiting[srt] {
			// a recursive type (e.g. cobra.Command): inputs of this shape are not rendered
			nd.kind = "unsupported"
			return nd
		}
		s.visiting[srt] = true
		defer delete(s.visiting, srt)
		nd.kind = "struct"
		for i := 0; i < u.NumFields(); i++ {
			nd.children = append(nd.children, s.shape(u.Field(i).Type(), fmt.Sprintf("(%s %s)", fieldSel(srt, u.Field(i).Name()), term), depth))
		}
		return nd
	case *types.Pointer:
		nd.kind = "opt"
		e := S.Sort(u.Elem())
		nd.extra["nil"] = s.want(fmt.Sprintf("((_ is none_%s) %s)", e, term))
		nd.children = []*node{s.shape(u.Elem(), fmt.Sprintf("(val_%s %s)", e, term), depth)}
		return nd
	case *types.Slice:
		nd.kind = "slice"
		nd.extra["len"] = s.want(fmt.Sprintf("(len_%s %s)", srt, term))
		nd.extra["nil"] = s.want(fmt.Sprintf("(nil_%s %s)", srt, term))
		bound := replaySliceBound
		if depth >= 2 {
			bound = 1
		}
		s.asserts = append(s.asserts, fmt.Sprintf("(and (>= (len_%s %s) 0) (<= (len_%s %s) %d) (=> (nil_%s %s) (= (len_%s %s) 0)))", srt, term, srt, term, bound, srt, term, srt, term))
		for i := 0; i < bound; i++ {
			nd.children = append(nd.children, s.shape(u.Elem(), sliceAt(srt, term, fmt.Sprint(i)), depth+1))
		}
		return nd
	case *types.Map:
		ks := S.Sort(u.Key())
		if ks != "String" && ks != "Int" {
			nd.kind = "unsupported"
			return nd
		}
		nd.kind = "map"
		nd.extra["nil"] = s.want(mapNil(srt, term))
		bound := replayMapBound
		if depth >= 1 {
			bound = 2
		}
		var alts []string
		for i := 0; i < bound; i++ {
			s.n++
			k := fmt.Sprintf("rk!%d", s.n)
			s.decls = append(s.decls, fmt.Sprintf("(declare-const %s %s)", k, ks))
			nd.keys = append(nd.keys, k)
			s.want(k)
			nd.extra[fmt.Sprintf("has%d", i)] = s.want(mapHas(srt, term, k))
			nd.vals = append(nd.vals, s.shape(u.Elem(), mapGet(srt, term, k), depth+1))
			alts = append(alts, fmt.Sprintf("(= ?x %s)", k))
		}
		s.asserts = append(s.asserts, fmt.Sprintf("(forall ((?x %s)) (=> %s (or %s)))", ks, mapHas(srt, term, "?x"), strings.Join(alts, " ")))
		s.asserts = append(s.asserts, fmt.Sprintf("(=> %s (forall ((?x %s)) (not %s)))", mapNil(srt, term), ks, mapHas(srt, term, "?x")))
		return nd
	}
	nd.kind = "unsupported"
	return nd
}

// ---------------------------------------------------------------- model parsing

// parseValues parses the output of (get-value (...)) : a list of (term value) pairs, in request order.
func parseValues(out string) ([]string, error) {
	i := strings.Index(out, "((")
	if i < 0 {
		return nil, fmt.Errorf("no get-value output")
	}
	toks, err := sexpTokens(out[i:])
	if err != nil {
		return nil, err
	}
	// toks is a flat token stream; parse the outer list of pairs
	pos := 0
	var parse func() (string, error)
	parse = func() (string, error) {
		if pos >= len(toks) {
			return "", fmt.Errorf("unexpected end")
		}
		t := toks[pos]
		pos++
		if t != "(" {
			return t, nil
		}
		var parts []string
		for pos < len(toks) && toks[pos] != ")" {
			p, err := parse()
			if err != nil {
				return "", err
			}
			parts = append(parts, p)
		}
		pos++
		return "(" + strings.Join(parts, " ") + ")", nil
	}
	if toks[0] != "(" {
		return nil, fmt.Errorf("bad get-value output")
	}
	pos = 1
	var vals []string
	for pos < len(toks) && toks[pos] == "(" {
		pos++                              // open pair
		if _, err := parse(); err != nil { // term
			return nil, err
		}
		v, err := parse()
		if err != nil {
			return nil, err
		}
		vals = append(vals, v)
		if pos < len(toks) && toks[pos] == ")" {
			pos++
		}
	}
	return vals, nil
}

func sexpTokens(s string) ([]string, error) {
	var toks []string
	for i := 0; i < len(s); {
		c := s[i]
		switch {
		case c == ' ' || c == '\n' || c == '\t' || c == '\r':
			i++
		case c == '(' || c == ')':
			toks = append(toks, string(c))
			i++
		case c == '"':
			j := i + 1
			for j < len(s) {
				if s[j] == '"' {
					if j+1 < len(s) && s[j+1] == '"' {
						j += 2
						continue
					}
					break
				}
				j++
			}
			if j >= len(s) {
				return nil, fmt.Errorf("unterminated string in model")
			}
			toks = append(toks, s[i:j+1])
			i = j + 1
		case c == '|':
			j := strings.IndexByte(s[i+1:], '|')
			if j < 0 {
				return nil, fmt.Errorf("unterminated symbol")
			}
			toks = append(toks, s[i:i+j+2])
			i += j + 2
		default:
			j := i
			for j < len(s) && !strings.ContainsRune(" \n\t\r()", rune(s[j])) {
				j++
			}
			toks = append(toks, s[i:j])
			i = j
		}
	}
	return toks, nil
}

func modelInt(v string) (int64, bool) {
	v = strings.TrimSpace(v)
	if strings.HasPrefix(v, "(- ") {
		n, err := strconv.ParseInt(strings.TrimSuffix(strings.TrimPrefix(v, "(- "), ")"), 10, 64)
		return -n, err == nil
	}
	n, err := strconv.ParseInt(v, 10, 64)
	return n, err == nil
}

// modelString decodes an SMT-LIB string literal into Go bytes (A2: code points above 255 cannot be replayed).
func modelString(v string) (string, bool) {
	if len(v) < 2 || v[0] != '"' {
		return "", false
	}
	body := strings.ReplaceAll(v[1:len(v)-1], `""`, `"`)
	var out []byte
	for i := 0; i < len(body); {
		if strings.HasPrefix(body[i:], `\u{`) {
			j := strings.IndexByte(body[i:], '}')
			if j > 0 {
				n, err := strconv.ParseInt(body[i+3:i+j], 16, 32)
				if err == nil {
					if n < 128 {
						out = append(out, byte(n))
					} else {
						out = append(out, []byte(string(rune(n)))...)
					}
					i += j + 1
					continue
				}
			}
		}
		if strings.HasPrefix(body[i:], `\u`) && i+6 <= len(body) {
			if n, err := strconv.ParseInt(body[i+2:i+6], 16, 32); err == nil {
				out = append(out, []byte(string(rune(n)))...)
				i += 6
				continue
			}
		}
		out = append(out, body[i])
		i++
	}
	return string(out), true
}

// ---------------------------------------------------------------- rendering Go literals

type renderer struct {
	vals    map[string]string // term -> model value
	pkg     *types.Package
	imports map[string]string // path -> name
	bad     []string
}

func (r *renderer) typeStr(t types.Type) string {
	return types.TypeString(t, func(p *types.Package) string {
		if p == r.pkg {
			return ""
		}
		r.imports[p.Path()] = p.Name()
		return p.Name()
	})
}

func (r *renderer) b(term string) bool { return strings.TrimSpace(r.vals[term]) == "true" }

func (r *renderer) lit(n *node) string {
	switch n.kind {
	case "bool":
		if r.b(n.term) {
			return r.conv(n.t, "true")
		}
		return r.conv(n.t, "false")
	case "int":
		v, ok := modelInt(r.vals[n.term])
		if !ok {
			r.bad = append(r.bad, "integer "+n.term+" = "+r.vals[n.term])
		}
		if b, isB := n.t.Underlying().(*types.Basic); isB && b.Info()&types.IsUnsigned != 0 && v < 0 {
			r.bad = append(r.bad, "negative value for unsigned "+n.term)
		}
		return r.conv(n.t, fmt.Sprint(v))
	case "float":
		return r.conv(n.t, "0")
	case "string":
		s, ok := modelString(r.vals[n.term])
		if !ok {
			r.bad = append(r.bad, "string "+n.term+" = "+r.vals[n.term])
		}
		return r.conv(n.t, strconv.Quote(s))
	case "err":
		if r.b(n.extra["nil"]) {
			return "error(nil)"
		}
		r.imports["errors"] = "errors"
		return `errors.New("govc: some error")`
	case "iface":
		if !r.b(n.extra["nil"]) {
			r.bad = append(r.bad, "non-nil interface value of type "+r.typeStr(n.t)+" cannot be constructed")
		}
		return "nil"
	case "any":
		switch {
		case r.b(n.extra["is_anil"]):
			return "any(nil)"
		case r.b(n.extra["is_astr"]):
			s, _ := modelString(r.vals[n.extra["str"]])
			return "any(" + strconv.Quote(s) + ")"
		case r.b(n.extra["is_abool"]):
			return "any(" + fmt.Sprint(r.b(n.extra["bool"])) + ")"
		case r.b(n.extra["is_aint"]):
			v, _ := modelInt(r.vals[n.extra["int"]])
			return fmt.Sprintf("any(int(%d))", v)
		case r.b(n.extra["is_aprim"]):
			k, _ := modelInt(r.vals[n.extra["kind"]])
			if k == 11 {
				return "any(uint64(7))"
			}
			return "any(int64(7))"
		case r.b(n.extra["is_alist"]) && len(n.children) > 0:
			return "any(" + r.lit(n.children[0]) + ")"
		}
		r.bad = append(r.bad, "dynamic value "+n.term+" cannot be constructed")
		return "any(nil)"
	case "struct":
		st := n.t.Underlying().(*types.Struct)
		var fs []string
		for i, c := range n.children {
			fs = append(fs, st.Field(i).Name()+": "+r.lit(c))
		}
		return r.typeStr(n.t) + "{" + strings.Join(fs, ", ") + "}"
	case "opt":
		if r.b(n.extra["nil"]) {
			return "(" + r.typeStr(n.t) + ")(nil)"
		}
		et := n.t.Underlying().(*types.Pointer).Elem()
		return "govcPtr[" + r.typeStr(et) + "](" + r.lit(n.children[0]) + ")"
	case "slice":
		if r.b(n.extra["nil"]) {
			return r.typeStr(n.t) + "(nil)"
		}
		ln, _ := modelInt(r.vals[n.extra["len"]])
		var es []string
		for i := 0; i < int(ln) && i < len(n.children); i++ {
			es = append(es, r.lit(n.children[i]))
		}
		if int(ln) > len(n.children) {
			r.bad = append(r.bad, "slice longer than the replay bound")
		}
		return r.typeStr(n.t) + "{" + strings.Join(es, ", ") + "}"
	case "map":
		if r.b(n.extra["nil"]) {
			return r.typeStr(n.t) + "(nil)"
		}
		seen := map[string]bool{}
		var es []string
		kt := n.t.Underlying().(*types.Map).Key()
		for i, k := range n.keys {
			if !r.b(n.extra[fmt.Sprintf("has%d", i)]) {
				continue
			}
			var ks string
			if isString(kt) {
				s, _ := modelString(r.vals[k])
				ks = r.conv(kt, strconv.Quote(s))
			} else {
				v, _ := modelInt(r.vals[k])
				ks = r.conv(kt, fmt.Sprint(v))
			}
			if seen[ks] {
				continue
			}
			seen[ks] = true
			es = append(es, ks+": "+r.lit(n.vals[i]))
		}
		return r.typeStr(n.t) + "{" + strings.Join(es, ", ") + "}"
	}
	r.bad = append(r.bad, "value of type "+r.typeStr(n.t)+" cannot be constructed")
	return "*new(" + r.typeStr(n.t) + ")"
}

func (r *renderer) conv(t types.Type, lit string) string {
	if _, named := types.Unalias(t).(*types.Named); named {
		return r.typeStr(t) + "(" + lit + ")"
	}
	if b, ok := t.(*types.Basic); ok && (b.Kind() == types.Int || b.Kind() == types.String || b.Kind() == types.Bool || b.Kind() == types.UntypedBool || b.Kind() == types.UntypedInt || b.Kind() == types.UntypedString) {
		return lit
	}
	return r.typeStr(t) + "(" + lit + ")"
}

// ---------------------------------------------------------------- the replay itself

func init() {
	TryReplay = tryReplayModel
	RunReplayTest = runReplayTest
}

func tryReplayModel(res *Result, repoDir, scratch string) *ReplayInfo {
	o := res.Obl
	vc := o.unit
	rc := vc.Replay
	if (rc == nil || rc.Fn == nil) && o.Kind == "lemma" && len(vc.RegexUses) > 0 {
		return replayRegexLemma(res, repoDir, scratch)
	}
	if rc == nil || rc.Fn == nil {
		return &ReplayInfo{Note: "obligation does not belong to a single function call (lemma, initialiser or global invariant): nothing to replay"}
	}
	if o.Kind != "ensures" && o.Kind != "frame" && !strings.HasPrefix(o.Kind, "safe:") {
		return &ReplayInfo{Note: "obligation kind " + o.Kind + " has no input/output replay (loop invariants and call preconditions are internal proof steps)"}
	}
	if o.Func != vc.Unit {
		return &ReplayInfo{Note: "obligation arises inside an inlined callee"}
	}
	sh := &shaper{vc: vc}
	var pnodes, rnodes, postnodes []*node
	for _, p := range rc.Params {
		if p.NilTerm != "" {
			sh.want(p.NilTerm)
		}
		pnodes = append(pnodes, sh.shape(p.T, p.Term, 0))
	}
	isSafety := strings.HasPrefix(o.Kind, "safe:")
	if !isSafety {
		for _, r := range rc.Results {
			rnodes = append(rnodes, sh.shape(r.T, r.Term, 0))
		}
		for _, p := range rc.Params {
			if p.PostTerm != "" {
				postnodes = append(postnodes, sh.shape(p.T, p.PostTerm, 0))
			} else {
				postnodes = append(postnodes, nil)
			}
		}
	}
	// the query: original facts + negated goal + boundedness, then the values
	q := o.Query(true)
	q = strings.TrimSuffix(strings.TrimSpace(q), "(check-sat)")
	var b strings.Builder
	b.WriteString("(set-option :produce-models true)\n(set-logic ALL)\n")
	b.WriteString(q)
	for _, d := range sh.decls {
		b.WriteString(d + "\n")
	}
	for _, a := range sh.asserts {
		b.WriteString("(assert " + a + ")\n")
	}
	b.WriteString("(check-sat)\n")
	b.WriteString("(get-value (" + strings.Join(sh.terms, "\n ") + "))\n")
	file := filepath.Join(scratch, "replay_"+sanitize(o.Name)+".smt2")
	if len(file) > 200 {
		file = filepath.Join(scratch, fmt.Sprintf("replay_%x.smt2", hashStr(o.Name)))
	}
	_ = os.WriteFile(file, []byte(b.String()), 0644)
	var out string
	var solver string
	for _, s := range []string{"z3-new", "z3"} {
		ctx, cancel := context.WithTimeout(context.Background(), 12*time.Second)
		args := []string{"-T:8", file}
		cmd := exec.CommandContext(ctx, s, args...)
		var ob bytes.Buffer
		cmd.Stdout = &ob
		cmd.Stderr = &ob
		_ = cmd.Run()
		cancel()
		if strings.HasPrefix(strings.TrimSpace(ob.String()), "sat") {
			out, solver = ob.String(), s
			break
		}
	}
	info := &ReplayInfo{}
	if out == "" {
		info.Note = fmt.Sprintf("no solver produced a bounded model (slices <= %d, maps <= %d keys) for the failed obligation", replaySliceBound, replayMapBound)
		return info
	}
	vals, err := parseValues(out)
	if err != nil || len(vals) != len(sh.terms) {
		info.Note = fmt.Sprintf("could not read the model back (%v; %d of %d values)", err, len(vals), len(sh.terms))
		return info
	}
	fn := rc.Fn
	pkg := calleePkg(fn)
	rd := &renderer{vals: map[string]string{}, pkg: pkg, imports: map[string]string{}}
	for i, t := range sh.terms {
		rd.vals[t] = vals[i]
	}
	info.Inputs = map[string]string{}
	info.Predicted = map[string]string{}
	var argLits []string
	for i, p := range rc.Params {
		lit := rd.lit(pnodes[i])
		if p.NilTerm != "" {
			if rd.b(p.NilTerm) {
				lit = "nil"
			} else {
				pt := p.T
				lit = "govcPtr[" + rd.typeStr(pt) + "](" + lit + ")"
			}
		}
		name := p.Name
		if name == "" || name == "_" {
			name = fmt.Sprintf("arg%d", i)
		}
		info.Inputs[name] = lit
		argLits = append(argLits, lit)
	}
	var predLits []string
	for i, rn := range rnodes {
		l := rd.lit(rn)
		predLits = append(predLits, l)
		info.Predicted[fmt.Sprintf("result%d", i)] = l
	}
	var postLits []string
	for i, pn := range postnodes {
		if pn == nil {
			postLits = append(postLits, "")
			continue
		}
		l := rd.lit(pn)
		postLits = append(postLits, l)
		info.Predicted["*"+rc.Params[i].Name+" after the call"] = l
	}
	if len(rd.bad) > 0 {
		info.Note = "model (" + solver + ") cannot be turned into Go values: " + strings.Join(rd.bad, "; ")
		return info
	}
	// the test
	var call string
	args := argLits
	if fn.Signature.Recv() != nil {
		recv := args[0]
		args = args[1:]
		call = "(" + recv + ")." + fn.Name() + "(" + strings.Join(args, ", ") + ")"
		if _, isPtr := fn.Signature.Recv().Type().(*types.Pointer); isPtr {
			call = "govcRecv." + fn.Name() + "(" + strings.Join(args, ", ") + ")"
		}
	} else {
		call = fn.Name() + "(" + strings.Join(args, ", ") + ")"
	}
	var t strings.Builder
	t.WriteString("package " + pkg.Name() + "\n\nimport (\n\t\"fmt\"\n\t\"reflect\"\n\t\"testing\"\n")
	var imps []string
	for p := range rd.imports {
		if p != "fmt" && p != "reflect" && p != "testing" {
			imps = append(imps, p)
		}
	}
	sort.Strings(imps)
	for _, p := range imps {
		t.WriteString("\t" + rd.imports[p] + " " + strconv.Quote(p) + "\n")
	}
	t.WriteString(")\n\n")
	t.WriteString(replayHelpers)
	t.WriteString("func TestGovcReplay(t *testing.T) {\n")
	t.WriteString("\t// obligation: " + o.Name + "\n")
	if isSafety {
		t.WriteString("\tdefer func() {\n\t\tif r := recover(); r != nil {\n\t\t\tt.Fatalf(\"GOVC-REPLAY-CONFIRMED: the real code panics on the solver's input: %v\", r)\n\t\t}\n\t\tfmt.Println(\"GOVC-REPLAY-NOT-REPRODUCED: no panic\")\n\t}()\n")
	}
	ptrRecv := false
	if fn.Signature.Recv() != nil {
		if _, isPtr := fn.Signature.Recv().Type().(*types.Pointer); isPtr {
			ptrRecv = true
			t.WriteString("\tgovcRecv := " + argLits[0] + "\n")
		}
	}
	// pointer arguments are kept in variables so that their pointees can be inspected afterwards
	nres := fn.Signature.Results().Len()
	var lhs []string
	for i := 0; i < nres; i++ {
		lhs = append(lhs, fmt.Sprintf("r%d", i))
	}
	ptrVars := map[int]string{}
	for i, p := range rc.Params {
		if p.NilTerm != "" && !(ptrRecv && i == 0) && !isSafety {
			v := fmt.Sprintf("govcArg%d", i)
			ptrVars[i] = v
			t.WriteString("\t" + v + " := " + argLits[i] + "\n")
		}
	}
	if len(ptrVars) > 0 {
		// rebuild the call with the variables
		as := append([]string{}, argLits...)
		for i, v := range ptrVars {
			as[i] = v
		}
		if fn.Signature.Recv() != nil {
			if ptrRecv {
				call = "govcRecv." + fn.Name() + "(" + strings.Join(as[1:], ", ") + ")"
			} else {
				call = "(" + as[0] + ")." + fn.Name() + "(" + strings.Join(as[1:], ", ") + ")"
			}
		} else {
			call = fn.Name() + "(" + strings.Join(as, ", ") + ")"
		}
	}
	if nres > 0 {
		t.WriteString("\t" + strings.Join(lhs, ", ") + " := " + call + "\n")
	} else {
		t.WriteString("\t" + call + "\n")
	}
	if !isSafety {
		t.WriteString("\tok := true\n")
		for i := 0; i < nres && i < len(predLits); i++ {
			t.WriteString(fmt.Sprintf("\tfmt.Printf(\"actual result %d: %%#v\\n\", r%d)\n", i, i))
			if isErrorType(fn.Signature.Results().At(i).Type()) {
				t.WriteString(fmt.Sprintf("\tif (r%d == nil) != (%s == nil) {\n\t\tok = false\n\t\tfmt.Println(\"result %d (error) differs from the solver's prediction in nil-ness\")\n\t}\n", i, predLits[i], i))
			} else {
				t.WriteString(fmt.Sprintf("\tif !govcEq(reflect.ValueOf(r%d), reflect.ValueOf(%s)) {\n\t\tok = false\n\t\tfmt.Println(\"result %d differs from the solver's prediction\")\n\t}\n", i, predLits[i], i))
			}
		}
		for i, v := range ptrVars {
			if postLits[i] == "" {
				continue
			}
			t.WriteString(fmt.Sprintf("\tif %s != nil {\n\t\tfmt.Printf(\"actual *%s after the call: %%#v\\n\", *%s)\n\t\tif !govcEq(reflect.ValueOf(*%s), reflect.ValueOf(%s)) {\n\t\t\tok = false\n\t\t\tfmt.Println(\"*%s differs from the solver's prediction\")\n\t\t}\n\t}\n", v, rc.Params[i].Name, v, v, postLits[i], rc.Params[i].Name))
		}
		if ptrRecv && len(postLits) > 0 && postLits[0] != "" {
			t.WriteString(fmt.Sprintf("\tif govcRecv != nil && !govcEq(reflect.ValueOf(*govcRecv), reflect.ValueOf(%s)) {\n\t\tok = false\n\t\tfmt.Println(\"receiver differs from the solver's prediction\")\n\t}\n", postLits[0]))
		}
		t.WriteString("\tif ok {\n\t\tt.Fatalf(\"GOVC-REPLAY-CONFIRMED: the real code returns exactly the outputs for which the solver shows the clause violated\")\n\t}\n\tfmt.Println(\"GOVC-REPLAY-NOT-REPRODUCED: the real outputs differ from the model (abstraction too coarse)\")\n")
	}
	t.WriteString("}\n")
	info.Test = t.String()
	info.Package = "./" + shortPath(pkg.Path())
	outp, failed := runReplayTest(repoDir, info.Package, info.Test, scratch)
	info.Output = outp
	info.Confirmed = failed && strings.Contains(outp, "GOVC-REPLAY-CONFIRMED")
	if !info.Confirmed {
		info.Note = "model from " + solver + " did not reproduce on the real code"
	} else {
		info.Note = "model from " + solver + " reproduced on the real code"
	}
	return info
}

const replayHelpers = `func govcPtr[T any](v T) *T { return &v }

// govcEq compares the real result with the predicted one: nil and empty slices/maps are alike,
// errors and functions are compared by nil-ness only.
func govcEq(a, b reflect.Value) bool {
	if !a.IsValid() || !b.IsValid() {
		return a.IsValid() == b.IsValid()
	}
	errT := reflect.TypeOf((*error)(nil)).Elem()
	if a.Type().Implements(errT) && a.Kind() == reflect.Interface || a.Type() == errT {
		return a.IsNil() == b.IsNil()
	}
	switch a.Kind() {
	case reflect.Interface:
		if a.IsNil() || b.IsNil() {
			return a.IsNil() == b.IsNil()
		}
		if _, isErr := a.Interface().(error); isErr {
			_, isErr2 := b.Interface().(error)
			return isErr2
		}
		return govcEq(a.Elem(), b.Elem())
	case reflect.Ptr:
		if a.IsNil() || b.IsNil() {
			return a.IsNil() == b.IsNil()
		}
		return govcEq(a.Elem(), b.Elem())
	case reflect.Slice:
		if a.Len() != b.Len() {
			return false
		}
		for i := 0; i < a.Len(); i++ {
			if !govcEq(a.Index(i), b.Index(i)) {
				return false
			}
		}
		return true
	case reflect.Map:
		if a.Len() != b.Len() {
			return false
		}
		for _, k := range a.MapKeys() {
			bv := b.MapIndex(k)
			if !bv.IsValid() || !govcEq(a.MapIndex(k), bv) {
				return false
			}
		}
		return true
	case reflect.Struct:
		for i := 0; i < a.NumField(); i++ {
			if !govcEq(a.Field(i), b.Field(i)) {
				return false
			}
		}
		return true
	case reflect.Func:
		return a.IsNil() == b.IsNil()
	case reflect.Float32, reflect.Float64:
		return true
	}
	if a.Kind() != b.Kind() {
		return false
	}
	switch a.Kind() {
	case reflect.String:
		return a.String() == b.String()
	case reflect.Bool:
		return a.Bool() == b.Bool()
	case reflect.Int, reflect.Int8, reflect.Int16, reflect.Int32, reflect.Int64:
		return a.Int() == b.Int()
	case reflect.Uint, reflect.Uint8, reflect.Uint16, reflect.Uint32, reflect.Uint64:
		return a.Uint() == b.Uint()
	}
	return true
}

`

// runReplayTest injects the test into the package with -overlay (nothing is written to the repo) and runs it.
func runReplayTest(repoDir, pkg, test, scratch string) (string, bool) {
	dir, err := os.MkdirTemp(scratch, "rt")
	if err != nil {
		return err.Error(), false
	}
	tf := filepath.Join(dir, "zz_govc_replay_test.go")
	if err := os.WriteFile(tf, []byte(test), 0644); err != nil {
		return err.Error(), false
	}
	target := filepath.Join(repoDir, strings.TrimPrefix(pkg, "./"), "zz_govc_replay_test.go")
	ov, _ := json.Marshal(map[string]any{"Replace": map[string]string{target: tf}})
	ovf := filepath.Join(dir, "overlay.json")
	_ = os.WriteFile(ovf, ov, 0644)
	ctx, cancel := context.WithTimeout(context.Background(), 120*time.Second)
	defer cancel()
	cmd := exec.CommandContext(ctx, "go", "test", "-overlay", ovf, "-vet=off", "-count=1", "-timeout", "60s", "-v", "-run", "^TestGovcReplay$", pkg)
	cmd.Dir = repoDir
	cmd.Env = append(os.Environ(), "GOFLAGS=-mod=mod", "GOPROXY=off", "GOSUMDB=off", "GOTOOLCHAIN=local")
	var ob bytes.Buffer
	cmd.Stdout = &ob
	cmd.Stderr = &ob
	err = cmd.Run()
	out := ob.String()
	if len(out) > 6000 {
		out = out[:6000] + "\n…"
	}
	return out, err != nil
}

// replayRegexLemma replays the counterexample of a language lemma: the solver's witness string is
// run through the real compiled regular expression; the violation is confirmed when the real verdict
// equals the one the solver computed for the code side (so the code's language and the documented
// language differ on that string).
func replayRegexLemma(res *Result, repoDir, scratch string) *ReplayInfo {
	o := res.Obl
	vc := o.unit
	use := vc.RegexUses[0]
	q := strings.TrimSuffix(strings.TrimSpace(o.Query(true)), "(check-sat)")
	script := "(set-option :produce-models true)\n(set-logic ALL)\n" + q + "(check-sat)\n(get-value (" + use.Arg + " " + use.Match + "))\n"
	file := filepath.Join(scratch, fmt.Sprintf("replay_%x.smt2", hashStr(o.Name)))
	_ = os.WriteFile(file, []byte(script), 0644)
	info := &ReplayInfo{}
	var out string
	for _, s := range []string{"z3-new", "z3"} {
		ctx, cancel := context.WithTimeout(context.Background(), 25*time.Second)
		cmd := exec.CommandContext(ctx, s, "-T:20", file)
		var ob bytes.Buffer
		cmd.Stdout = &ob
		_ = cmd.Run()
		cancel()
		if strings.HasPrefix(strings.TrimSpace(ob.String()), "sat") {
			out = ob.String()
			break
		}
	}
	if out == "" {
		info.Note = "no witness string from the solver"
		return info
	}
	vals, err := parseValues(out)
	if err != nil || len(vals) != 2 {
		info.Note = "could not read the witness back"
		return info
	}
	x, ok := modelString(vals[0])
	if !ok {
		info.Note = "witness is not a string literal: " + vals[0]
		return info
	}
	want := strings.TrimSpace(vals[1]) == "true"
	info.Inputs = map[string]string{"x": strconv.Quote(x)}
	info.Predicted = map[string]string{use.Var + ".MatchString(x)": fmt.Sprint(want), "documented grammar accepts x": fmt.Sprint(!want)}
	info.Package = "./" + shortPath(use.Pkg)
	info.Test = fmt.Sprintf(`package %s

import "testing"

func TestGovcReplay(t *testing.T) {
	// obligation: %s
	x := %s
	got := %s.MatchString(x)
	if got == %v {
		t.Fatalf("GOVC-REPLAY-CONFIRMED: %s.MatchString(%%q) = %%v, but the documented grammar says %%v", x, got, !got)
	}
	t.Logf("GOVC-REPLAY-NOT-REPRODUCED: the real regular expression answers %%v", got)
}
`, use.PkgName, o.Name, strconv.Quote(x), use.Var, want, use.Var)
	outp, failed := runReplayTest(repoDir, info.Package, info.Test, scratch)
	info.Output = outp
	info.Confirmed = failed && strings.Contains(outp, "GOVC-REPLAY-CONFIRMED")
	if info.Confirmed {
		info.Note = "witness string reproduced on the real regular expression"
	} else {
		info.Note = "witness did not reproduce"
	}
	return info
}
