package engine

import (
	"fmt"
	"go/constant"
	"go/token"
	"go/types"
	"strings"

	"govc/internal/spec"

	"golang.org/x/tools/go/ssa"
)

// pureExternal lists external functions that have no side effects on program state
// reachable from their arguments (they may allocate). Calls to them without an
// assumed contract become uninterpreted functions of their arguments.
var pureExternalPkgs = map[string]bool{
	"strings": true, "strconv": true, "fmt": true, "errors": true, "path/filepath": true, "unicode/utf8": true,
	"golang.org/x/mod/semver": true, "regexp": true, "reflect": true,
	"github.com/gontainer/gontainer-helpers/v3/grouperror": true,
	"github.com/gontainer/gontainer-helpers/v3/exporter":   true,
}

func funcPkgPath(f *ssa.Function) string {
	if o := f.Origin(); o != nil {
		f = o
	}
	if f.Pkg != nil {
		return f.Pkg.Pkg.Path()
	}
	if f.Object() != nil && f.Object().Pkg() != nil {
		return f.Object().Pkg().Path()
	}
	return ""
}

func (w *World) pureExternal(f *ssa.Function) bool {
	p := funcPkgPath(f)
	if p == "fmt" && (strings.HasPrefix(f.Name(), "Fp") || strings.HasPrefix(f.Name(), "Print")) {
		return false
	}
	return pureExternalPkgs[p]
}

func qualifiedName(f *ssa.Function) string {
	k := FuncKey(f)
	if i := strings.Index(k, ":"); i >= 0 {
		return funcPkgPath(f) + "." + k[i+1:]
	}
	return k
}

// execCall executes a call instruction (or a deferred call when instr == nil).
func (fr *Frame) execCall(c *ssa.CallCommon, instr *ssa.Call, cond string, st *State) Val {
	var resT types.Type = types.NewTuple()
	if instr != nil {
		resT = instr.Type()
	} else if sig, ok := c.Value.Type().Underlying().(*types.Signature); ok {
		resT = sig.Results()
	}
	if bi, ok := c.Value.(*ssa.Builtin); ok {
		return fr.execBuiltin(bi, c, resT, cond, st)
	}
	var args []Val
	for _, a := range c.Args {
		args = append(args, fr.val(a))
	}
	if c.IsInvoke() {
		recv := fr.val(c.Value)
		return fr.execInvoke(c, recv, args, resT, cond, st)
	}
	callee := c.StaticCallee()
	if callee == nil {
		fv := fr.val(c.Value)
		if fv.Clo != nil {
			if len(fv.Clo.Bindings) == 0 && fv.Clo.Recv == nil && fv.Clo.Fn.Parent() == nil {
				return fr.callStatic(fv.Clo.Fn, c, args, resT, cond, st)
			}
			return fr.callClosure(fv.Clo, args, resT, cond, st, nil)
		}
		return fr.dynCall(fv, c, args, resT, cond, st)
	}
	if mc, ok := c.Value.(*ssa.MakeClosure); ok {
		clo := fr.val(mc).Clo
		return fr.callClosure(clo, args, resT, cond, st, nil)
	}
	if callee.Parent() != nil && callee.Blocks != nil && len(callee.FreeVars) == 0 {
		// anonymous function without captures called directly
		return fr.callClosure(&Closure{Fn: callee}, args, resT, cond, st, nil)
	}
	return fr.callStatic(callee, c, args, resT, cond, st)
}

func (fr *Frame) callStatic(callee *ssa.Function, c *ssa.CallCommon, args []Val, resT types.Type, cond string, st *State) Val {
	vc := fr.vc
	if v, ok := fr.modelExternal(callee, c, args, resT, cond, st); ok {
		return v
	}
	if qualifiedName(callee) == RepoModule+"/internal/pkg/regex.Match" && len(args) == 2 && args[0].Re != nil {
		return fr.modelRegexMatch(*args[0].Re, args[1], resT, cond, st)
	}
	sp := vc.W.SpecFor(callee)
	if fr.top.inlineInits && callee.Blocks != nil && strings.HasPrefix(callee.Name(), "init#") && IsRepo(callee) {
		if sp != nil && sp.Trusted {
			// a trusted initialiser: the globals it stores to become arbitrary
			vc.Assumed["trusted initialiser "+FuncKey(callee)+": "+sp.TrustWhy] = true
			for _, b := range callee.Blocks {
				for _, in := range b.Instrs {
					if s, ok := in.(*ssa.Store); ok {
						if g, ok := s.Addr.(*ssa.Global); ok {
							c := vc.W.globalCell(vc, g)
							st.cells[c] = vc.fresh("hv_"+c.Name, vc.cellSort(c))
						}
					}
				}
			}
			return Val{T: resT}
		}
		sub := fr.callClosure(&Closure{Fn: callee}, args, resT, cond, st, nil)
		return sub
	}
	if fr.top.inlineInits && callee.Name() == "init" && !IsRepo(callee) {
		return Val{T: resT} // initialisers of imported packages do not touch this package's globals (A5)
	}
	if isMapsIterate(callee) {
		return fr.execIterate(c, args, resT, cond, st)
	}
	if sp != nil && sp.Inline && callee.Blocks != nil {
		fr.inlineAt = c.Pos()
		return fr.callClosure(&Closure{Fn: callee}, args, resT, cond, st, nil)
	}
	if sp != nil {
		return fr.applyContract(callee, sp, args, resT, cond, st)
	}
	if !IsRepo(callee) && vc.W.pureExternal(callee) {
		return fr.uninterpretedCall(callee, args, resT, st)
	}
	// a repository function without contract (a small helper, possibly one just extracted from its caller) is
	// executed in place: its body is part of the caller's proof, its panics are the caller's obligations
	if vc.W.inlinable(callee) && fr.inlineDepth() < 4 {
		fr.inlineAt = c.Pos()
		return fr.callClosure(&Closure{Fn: callee}, args, resT, cond, st, nil)
	}
	return fr.havocCall("call to "+qualifiedName(callee)+" without contract", c, args, resT, cond, st)
}

// inlineDepth: how many function bodies are currently being executed in place above this frame.
func (fr *Frame) inlineDepth() int {
	n := 0
	for p := fr; p != nil; p = p.parent {
		n++
	}
	return n
}

type loopOverride struct {
	spec    *spec.LoopSpec
	ordinal int
	key     string
}

// callClosure inlines a function body.
func (fr *Frame) callClosure(clo *Closure, args []Val, resT types.Type, cond string, st *State, ov *loopOverride) Val {
	vc := fr.vc
	fn := clo.Fn
	if fn.Blocks == nil {
		return fr.havocCall("closure without body", nil, args, resT, cond, st)
	}
	for p := fr; p != nil; p = p.parent {
		if p.fn == fn {
			vc.outside("recursive inlining of %s", FuncKey(fn))
			return fr.freshResult(resT)
		}
	}
	sub := vc.newFrame(fn, fr)
	sub.parent = fr
	at := fr.inlineAt
	fr.inlineAt = token.NoPos
	if ov == nil && fn.Parent() == nil && at.IsValid() {
		// a helper executed in place: its loops are numbered, specified and named as part of the function under contract
		if base, ok := fr.inlOrd[at]; ok {
			sub.rebase(base, fr.loopOwnerFrame())
		}
	}
	if ov != nil {
		for _, li := range sub.loops {
			li.spec = ov.spec
			li.ordinal = ov.ordinal
			li.ownerKey = ov.key
			li.ownerFrame = fr
		}
	}
	all := args
	if clo.Recv != nil {
		all = append([]Val{*clo.Recv}, args...)
	}
	for i, p := range fn.Params {
		if i < len(all) {
			a := all[i]
			a.T = p.Type()
			sub.env[p] = a
			if sub.mutated[p] && a.Obj == nil && a.Home == nil {
				sub.env[p] = sub.ensureObj(a, st, p.Name())
			}
		}
	}
	for i, f := range fn.FreeVars {
		if i < len(clo.Bindings) {
			sub.env[f] = clo.Bindings[i]
		}
	}
	savedPos := vc.curPos
	rc, rs, res := sub.run(cond, st)
	vc.curPos = savedPos
	// the inlined body returns (its panics are separate obligations): what holds on its return paths
	// (e.g. loop exit conditions) holds after the call
	if rc != "false" {
		vc.fact(implies(cond, rc))
	}
	if rs != nil {
		st.cells = rs.cells
	}
	return packResults(res, resT)
}

func packResults(res []Val, resT types.Type) Val {
	if tup, ok := resT.(*types.Tuple); ok {
		if tup.Len() == 0 {
			return Val{T: resT}
		}
		if tup.Len() == 1 && len(res) == 1 {
			return res[0]
		}
		return Val{T: resT, Tuple: res}
	}
	if len(res) == 1 {
		return res[0]
	}
	return Val{T: resT, Tuple: res}
}

func (fr *Frame) freshResult(resT types.Type) Val {
	vc := fr.vc
	if tup, ok := resT.(*types.Tuple); ok {
		var vs []Val
		for i := 0; i < tup.Len(); i++ {
			t := tup.At(i).Type()
			vs = append(vs, Val{T: t, Term: vc.fresh("res", vc.S.Sort(t))})
		}
		return packResults(vs, resT)
	}
	return Val{T: resT, Term: vc.fresh("res", vc.S.Sort(resT))}
}

// havocCall models a call we know nothing about: results are arbitrary and every
// cell reachable through a pointer argument is arbitrary afterwards.
func (fr *Frame) havocCall(why string, c *ssa.CallCommon, args []Val, resT types.Type, cond string, st *State) Val {
	vc := fr.vc
	vc.warn("%s: %s — results and pointer arguments havoc'ed", fr.key, why)
	if c != nil {
		if callee := c.StaticCallee(); callee != nil && vc.W.MayEffect(callee) {
			fr.havocTrace(st)
		}
	}
	for _, a := range args {
		fr.havocReach(a, st)
	}
	if c != nil {
		// a pointer handed over boxed in an interface (f(&x) where f takes `any`) is reachable by the callee too
		for _, a := range c.Args {
			if mi, ok := a.(*ssa.MakeInterface); ok {
				if _, isPtr := mi.X.Type().Underlying().(*types.Pointer); isPtr {
					fr.havocReach(fr.val(mi.X), st)
				}
			}
		}
	}
	if c != nil {
		if mc, ok := c.Value.(*ssa.MakeClosure); ok {
			for _, b := range mc.Bindings {
				fr.havocReach(fr.val(b), st)
			}
		}
	}
	return fr.freshResult(resT)
}

// havocTrace: the trace after a call that may append events: same prefix, possibly longer.
func (fr *Frame) havocTrace(st *State) {
	vc := fr.vc
	tc, lc := vc.traceCells(st)
	oldT, oldL := st.cells[tc], st.cells[lc]
	nt := vc.fresh("trace", "(Array Int Event)")
	nl := vc.fresh("tlen", "Int")
	vc.fact(fmt.Sprintf("(>= %s %s)", nl, oldL))
	vc.fact(fmt.Sprintf("(forall ((?k Int)) (! (=> (and (<= 0 ?k) (< ?k %s)) (= (select %s ?k) (select %s ?k))) :pattern ((select %s ?k))))", oldL, nt, oldT, nt))
	st.cells[tc] = nt
	st.cells[lc] = nl
}

func (fr *Frame) havocReach(a Val, st *State) {
	vc := fr.vc
	if a.Loc != nil {
		vc.store(st, a.Loc, vc.fresh("hv", vc.S.Sort(a.T.Underlying().(*types.Pointer).Elem())))
	}
	if a.Clo != nil {
		for _, b := range a.Clo.Bindings {
			fr.havocReach(b, st)
		}
	}
}

// uninterpretedCall models a pure external without contract as an uninterpreted function.
func (fr *Frame) uninterpretedCall(callee *ssa.Function, args []Val, resT types.Type, st *State) Val {
	vc := fr.vc
	name := "uf_" + sanitize(qualifiedName(callee))
	var sorts, terms []string
	for _, a := range args {
		if a.Re != nil {
			sorts = append(sorts, "String")
			terms = append(terms, strLit(*a.Re))
			continue
		}
		sorts = append(sorts, vc.S.Sort(a.T))
		terms = append(terms, vc.term(st, a))
	}
	mk := func(i int, t types.Type) Val {
		n := fmt.Sprintf("%s_r%d", name, i)
		srt := vc.S.Sort(t)
		vc.declareFun(n, sorts, srt)
		if len(terms) == 0 {
			return Val{T: t, Term: "(" + n + ")"}
		}
		return Val{T: t, Term: "(" + n + " " + strings.Join(terms, " ") + ")"}
	}
	vc.Assumed["uninterpreted: "+qualifiedName(callee)] = true
	if tup, ok := resT.(*types.Tuple); ok {
		var vs []Val
		for i := 0; i < tup.Len(); i++ {
			vs = append(vs, mk(i, tup.At(i).Type()))
		}
		return packResults(vs, resT)
	}
	return mk(0, resT)
}

// ---------------------------------------------------------------- contracts at call sites

func (fr *Frame) paramNames(callee *ssa.Function, sp *spec.FuncSpec) []string {
	return calleeParamNames(callee, sp)
}

func (fr *Frame) applyContract(callee *ssa.Function, sp *spec.FuncSpec, args []Val, resT types.Type, cond string, st *State) Val {
	vc := fr.vc
	key := qualifiedName(callee)
	if IsRepo(callee) {
		key = FuncKey(callee)
	}
	if sp.NoBody || sp.Trusted {
		vc.Assumed["assumed contract: "+key] = true
	}
	env := &SpecEnv{vc: vc, fr: fr, st: st, names: map[string]Val{}, bound: map[string]Val{}, owner: callee}
	env.pkg = calleePkg(callee)
	if o := callee.Origin(); o != nil && o.TypeParams().Len() == len(callee.TypeArgs()) {
		env.typeArgs = map[string]types.Type{}
		for i, ta := range callee.TypeArgs() {
			env.typeArgs[o.TypeParams().At(i).Obj().Name()] = ta
		}
	}
	names := calleeParamNames(callee, sp)
	for i, n := range names {
		if i < len(args) && n != "" && n != "_" {
			env.names[n] = args[i]
		}
	}
	pre := st.clone()
	env.old = pre
	for i, r := range sp.Requires {
		g := env.compileBool(r.Expr)
		label := r.Label
		if label == "" {
			label = fmt.Sprint(i + 1)
		}
		vc.oblige(fr.top.oname(), "call-pre:"+shortKey(key), label, clauseProps(r, fr.top.props), cond, g)
	}
	// frame: havoc what modifies names
	for _, m := range sp.Modifies {
		loc, t := env.compileLoc(m)
		if loc != nil {
			if t == nil {
				vc.store(st, loc, vc.fresh("mod", vc.cellSort(loc.Cell)))
			} else {
				vc.store(st, loc, vc.fresh("mod", vc.S.Sort(t)))
			}
		}
	}
	// a callee that can perform declared effects appends its events to the (flattened) trace: the trace keeps its
	// prefix and may grow; what the callee's contract says about tlen()/evIs(...) then describes that segment.
	// A callee that is itself declared `effect` is logged in call order: first the event of the call, then the
	// events of its body (so old(tlen()) in its contract is the position right after its own event).
	callFirst := sp.Effect && !sp.Pure && vc.W.BodyMayEffect(callee)
	if !callFirst && !sp.Pure && vc.W.BodyMayEffect(callee) {
		fr.havocTrace(st)
	}
	// results
	var res []Val
	var resTypes []types.Type
	if tup, ok := resT.(*types.Tuple); ok {
		for i := 0; i < tup.Len(); i++ {
			resTypes = append(resTypes, tup.At(i).Type())
		}
	} else {
		resTypes = []types.Type{resT}
	}
	if sp.Pure {
		var sorts, terms []string
		for _, a := range args {
			if a.Re != nil {
				sorts, terms = append(sorts, "String"), append(terms, strLit(*a.Re))
				continue
			}
			sorts = append(sorts, vc.S.Sort(a.T))
			terms = append(terms, vc.term(pre, a))
		}
		for i, t := range resTypes {
			n := vc.pureName(callee, args, i)
			vc.declareFun(n, sorts, vc.S.Sort(t))
			app := "(" + n + " " + strings.Join(terms, " ") + ")"
			if len(terms) == 0 {
				app = n
			}
			res = append(res, Val{T: t, Term: vc.define("pr", vc.S.Sort(t), app)})
		}
	} else {
		for _, t := range resTypes {
			res = append(res, Val{T: t, Term: vc.fresh("r_"+callee.Name(), vc.S.Sort(t))})
		}
	}
	env.results = res
	env.resultNames = resultNames(callee, sp)
	env.st = st
	logOwn := func() {
		recv := ""
		as := args
		fr.logRecv = nil
		if callee.Signature.Recv() != nil && len(args) > 0 {
			if vc.S.Sort(args[0].T) == "Iface" {
				recv = vc.term(pre, args[0])
			}
			fr.logRecv = []Val{args[0]}
			as = args[1:]
			if _, isStruct := args[0].T.Underlying().(*types.Struct); isStruct {
				// a receiver passed by value is part of what the call is given: it is eligible as the event's payload
				as = args
			}
		}
		fr.logCall(st, pre, key, recv, as, res)
		fr.logRecv = nil
	}
	if callFirst {
		logOwn()
		tc, lc := vc.traceCells(st)
		pre2 := pre.clone()
		pre2.cells[tc], pre2.cells[lc] = st.cells[tc], st.cells[lc]
		env.old = pre2
		fr.havocTrace(st)
	}
	for _, e := range sp.Ensures {
		if e.Local {
			continue // about the callee's own variables: not part of what callers may assume
		}
		g := env.compileBool(e.Expr)
		vc.fact(implies(cond, g))
	}
	if sp.Effect && !callFirst {
		logOwn()
	}
	return packResults(res, resT)
}

func (vc *VC) pureName(callee *ssa.Function, args []Val, i int) string {
	n := "pure_" + sanitize(qualifiedName(callee))
	if callee.Origin() != nil || callee.TypeParams().Len() > 0 {
		for _, a := range args {
			n += "_" + vc.S.Sort(a.T)
		}
	}
	if i > 0 {
		n += fmt.Sprintf("_r%d", i)
	}
	return n
}

func calleePkg(f *ssa.Function) *types.Package {
	if o := f.Origin(); o != nil {
		f = o
	}
	for f.Parent() != nil {
		f = f.Parent()
	}
	if f.Pkg != nil {
		return f.Pkg.Pkg
	}
	if f.Object() != nil {
		return f.Object().Pkg()
	}
	return nil
}

func resultNames(f *ssa.Function, sp *spec.FuncSpec) []string {
	var out []string
	if sp != nil && len(sp.Results) > 0 {
		for _, r := range sp.Results {
			out = append(out, r.Name)
		}
		return out
	}
	rs := f.Signature.Results()
	for i := 0; i < rs.Len(); i++ {
		out = append(out, rs.At(i).Name())
	}
	return out
}

// execInvoke handles interface method calls.
func (fr *Frame) execInvoke(c *ssa.CallCommon, recv Val, args []Val, resT types.Type, cond string, st *State) Val {
	vc := fr.vc
	// contract key: <pkg>:<Iface>.<Method> for named interfaces
	key := ""
	if n, ok := types.Unalias(c.Value.Type()).(*types.Named); ok && n.Obj().Pkg() != nil {
		key = shortPath(n.Obj().Pkg().Path()) + ":" + n.Obj().Name() + "." + c.Method.Name()
		if !inRepoPath(n.Obj().Pkg().Path()) {
			key = n.Obj().Pkg().Path() + "." + n.Obj().Name() + "." + c.Method.Name()
		}
	} else if isErrorType(c.Value.Type()) {
		key = "error." + c.Method.Name()
	}
	if sp, ok := vc.W.Specs[key]; ok {
		all := append([]Val{recv}, args...)
		return fr.applyIfaceContract(key, sp, c, all, resT, cond, st)
	}
	if key == "reflect.Type.Kind" && vc.S.Sort(recv.T) == "Iface" {
		// Kind() of a descriptor obtained from reflect.TypeOf: the kind under which the value was boxed
		t := vc.term(st, recv)
		vc.oblige(fr.top.oname(), "safe:nil-iface-call", fr.siteLabel(), fr.top.props, cond, not(eq(t, "inil")))
		vc.declareFun("rtype_any", []string{"Int"}, "Any")
		vc.declareFun("any_kind", []string{"Any"}, "Int")
		a := vc.define("rt_any", "Any", fmt.Sprintf("(rtype_any (iobj_id %s))", t))
		k := fmt.Sprintf("(any_kind %s)", a)
		isDesc := fmt.Sprintf("(and ((_ is iobj) %s) (= (iobj_tag %s) %d))", t, t, reflectTypeTag)
		for _, f := range []string{
			fmt.Sprintf("(=> ((_ is astr) %s) (= %s 24))", a, k),
			fmt.Sprintf("(=> ((_ is abool) %s) (= %s 1))", a, k),
			fmt.Sprintf("(=> ((_ is aint) %s) (= %s 2))", a, k),
			// sized numeric kinds: the encoding boxes exactly these (primKind)
			fmt.Sprintf("(=> ((_ is aprim) %s) (and (= %s (aprim_kind %s)) (or (and (<= 3 %s) (<= %s 11)) (= %s 13) (= %s 14))))", a, k, a, k, k, k, k),
			fmt.Sprintf("(=> ((_ is alist) %s) (= %s 23))", a, k),
			fmt.Sprintf("(=> ((_ is adict) %s) (= %s 21))", a, k),
			fmt.Sprintf("(and (<= 1 %s) (<= %s 26))", k, k),
		} {
			vc.fact(implies(and(cond, isDesc), f))
		}
		return Val{T: resT, Term: ite(isDesc, k, vc.fresh("kind", "Int"))}
	}
	vc.oblige(fr.top.oname(), "safe:nil-iface-call", fr.siteLabel(), fr.top.props, cond, not(fr.ifaceNil(recv, st)))
	return fr.havocCall(fmt.Sprintf("interface call %s.%s without contract", c.Value.Type(), c.Method.Name()), c, args, resT, cond, st)
}

func (fr *Frame) ifaceNil(v Val, st *State) string {
	vc := fr.vc
	switch vc.S.Sort(v.T) {
	case "Iface":
		return eq(vc.term(st, v), "inil")
	case "Err":
		return eq(vc.term(st, v), "enil")
	case "Any":
		return eq(vc.term(st, v), "anil")
	}
	return "false"
}

func (fr *Frame) applyIfaceContract(key string, sp *spec.FuncSpec, c *ssa.CallCommon, all []Val, resT types.Type, cond string, st *State) Val {
	vc := fr.vc
	vc.Assumed["interface contract: "+key] = true
	env := &SpecEnv{vc: vc, fr: fr, st: st, names: map[string]Val{}, bound: map[string]Val{}}
	if n, ok := types.Unalias(c.Value.Type()).(*types.Named); ok {
		env.pkg = n.Obj().Pkg()
	}
	names := []string{"self"}
	if len(sp.Params) > 0 {
		for _, p := range sp.Params {
			names = append(names, p.Name)
		}
	} else {
		ps := c.Signature().Params()
		for i := 0; i < ps.Len(); i++ {
			names = append(names, ps.At(i).Name())
		}
	}
	for i, n := range names {
		if i < len(all) && n != "" && n != "_" {
			env.names[n] = all[i]
		}
	}
	pre := st.clone()
	env.old = pre
	vc.oblige(fr.top.oname(), "safe:nil-iface-call", fr.siteLabel(), fr.top.props, cond, not(fr.ifaceNil(all[0], st)))
	for i, r := range sp.Requires {
		g := env.compileBool(r.Expr)
		label := r.Label
		if label == "" {
			label = fmt.Sprint(i + 1)
		}
		vc.oblige(fr.top.oname(), "call-pre:"+shortKey(key), label, clauseProps(r, fr.top.props), cond, g)
	}
	for _, m := range sp.Modifies {
		loc, t := env.compileLoc(m)
		if loc != nil {
			if t == nil {
				vc.store(st, loc, vc.fresh("mod", vc.cellSort(loc.Cell)))
			} else {
				vc.store(st, loc, vc.fresh("mod", vc.S.Sort(t)))
			}
		}
	}
	var res []Val
	var resTypes []types.Type
	if tup, ok := resT.(*types.Tuple); ok {
		for i := 0; i < tup.Len(); i++ {
			resTypes = append(resTypes, tup.At(i).Type())
		}
	} else {
		resTypes = []types.Type{resT}
	}
	if sp.Pure {
		var sorts, terms []string
		for _, a := range all {
			sorts = append(sorts, vc.S.Sort(a.T))
			terms = append(terms, vc.term(pre, a))
		}
		for i, t := range resTypes {
			n := "pure_" + sanitize(key)
			if i > 0 {
				n += fmt.Sprintf("_r%d", i)
			}
			vc.declareFun(n, sorts, vc.S.Sort(t))
			res = append(res, Val{T: t, Term: vc.define("pr", vc.S.Sort(t), "("+n+" "+strings.Join(terms, " ")+")")})
		}
	} else {
		for _, t := range resTypes {
			res = append(res, Val{T: t, Term: vc.fresh("r_"+c.Method.Name(), vc.S.Sort(t))})
		}
	}
	env.results = res
	if len(sp.Results) > 0 {
		for _, r := range sp.Results {
			env.resultNames = append(env.resultNames, r.Name)
		}
	}
	for _, e := range sp.Ensures {
		if e.Local {
			continue // about the callee's own variables: not part of what callers may assume
		}
		vc.fact(implies(cond, env.compileBool(e.Expr)))
	}
	if sp.Effect {
		recv := ""
		if vc.S.Sort(all[0].T) == "Iface" {
			recv = vc.term(pre, all[0])
		}
		fr.logCall(st, pre, key, recv, all[1:], res)
	}
	return packResults(res, resT)
}

// logCall appends the event of an effectful call: string arguments (first two) and an error result are recorded.
func (fr *Frame) logCall(st, pre *State, key, recv string, args []Val, res []Val) {
	vc := fr.vc
	var strs []string
	for _, a := range args {
		if a.T != nil && isString(a.T) && a.Re == nil {
			strs = append(strs, vc.term(pre, a))
		} else if a.T != nil && vc.S.Sort(a.T) == "Slice_String" {
			// a (variadic) list of strings: its first two elements are recorded after the plain string arguments
			t := vc.term(pre, a)
			strs = append(strs, sliceAt("Slice_String", t, "0"), sliceAt("Slice_String", t, "1"))
		} else if a.T != nil && vc.S.Sort(a.T) == "Slice_Int" {
			// []byte payloads are recorded as the string they were converted from
			vc.declareFun("string_of_bytes", []string{"Slice_Int"}, "String")
			strs = append(strs, fmt.Sprintf("(string_of_bytes %s)", vc.term(pre, a)))
		}
	}
	errT := ""
	for _, r := range res {
		if r.T != nil && vc.S.Sort(r.T) == "Err" {
			errT = r.Term
		} else if r.T != nil && isString(r.T) {
			strs = append(strs, r.Term)
		}
	}
	// the first argument that is neither a string nor a byte slice is recorded as the event's payload (evArg)
	payload := ""
	for _, a := range args {
		if a.T == nil || a.Re != nil || a.Clo != nil || isString(a.T) {
			continue
		}
		srt := vc.S.Sort(a.T)
		if srt == "Slice_Int" {
			continue
		}
		switch a.T.Underlying().(type) {
		case *types.Struct, *types.Interface:
			// payloads are recorded for structs (e.g. the runner's payload) and interface values (e.g. an io.Writer)
		default:
			continue
		}
		box, _ := vc.evBox(srt)
		payload = fmt.Sprintf("(%s %s)", box, vc.term(pre, a))
		break
	}
	// the first pointer argument that designates a known variable is recorded by the identity of that variable
	ptr := ""
	for _, a := range args {
		if a.T == nil || a.Loc == nil || len(a.Loc.Path) != 0 {
			continue
		}
		if _, isPtr := a.T.Underlying().(*types.Pointer); isPtr {
			ptr = fmt.Sprint(a.Loc.Cell.id)
			break
		}
	}
	// the first boolean argument, and the event whose (pointer) result the first pointer argument / receiver is
	b1 := ""
	for _, a := range args {
		if a.T != nil && a.Re == nil && a.Clo == nil && vc.S.Sort(a.T) == "Bool" {
			b1 = vc.term(pre, a)
			break
		}
	}
	from := ""
	for _, a := range append(append([]Val{}, fr.logRecv...), args...) {
		if a.T == nil || a.Term == "" {
			continue
		}
		if _, isPtr := a.T.Underlying().(*types.Pointer); isPtr {
			if idx, ok := vc.resultOrigin[a.Term]; ok {
				from = idx
			}
			break
		}
	}
	// the first integer argument (e.g. the status handed to os.Exit)
	i1 := ""
	for _, a := range args {
		if a.T == nil || a.Re != nil || a.Clo != nil || a.Term == "" {
			continue
		}
		if b, ok := a.T.Underlying().(*types.Basic); ok && b.Info()&types.IsInteger != 0 && vc.S.Sort(a.T) == "Int" {
			i1 = vc.term(pre, a)
			break
		}
	}
	idx := vc.logEffect(st, key, recv, strs, errT, payload, ptr, b1, from, i1)
	for _, r := range res {
		if r.T == nil || r.Term == "" {
			continue
		}
		if _, isPtr := r.T.Underlying().(*types.Pointer); isPtr {
			if vc.resultOrigin == nil {
				vc.resultOrigin = map[string]string{}
			}
			vc.resultOrigin[r.Term] = idx
		}
	}
}

// ---------------------------------------------------------------- builtins

func (fr *Frame) execBuiltin(bi *ssa.Builtin, c *ssa.CallCommon, resT types.Type, cond string, st *State) Val {
	vc := fr.vc
	switch bi.Name() {
	case "len", "cap":
		x := fr.val(c.Args[0])
		xt := c.Args[0].Type()
		switch u := xt.Underlying().(type) {
		case *types.Basic:
			// machine fact: the length of a string is an int
			ln := fmt.Sprintf("(str.len %s)", vc.term(st, x))
			vc.fact(fmt.Sprintf("(<= %s 9223372036854775807)", ln))
			return Val{T: resT, Term: ln}
		case *types.Slice:
			ln := vc.sliceLen(vc.S.Sort(xt), vc.term(st, x))
			if bi.Name() == "len" {
				// machine fact: the elements of a slice fit into the address space (len * sizeof(elem) is an int)
				if sz := elemSize(u.Elem()); sz > 1 {
					vc.fact(fmt.Sprintf("(<= %s %d)", ln, int64(9223372036854775807)/sz))
				}
			}
			return Val{T: resT, Term: ln}
		case *types.Map:
			return Val{T: resT, Term: vc.mapCard(vc.S.Sort(xt), vc.S.Sort(u.Key()), vc.term(st, x))}
		case *types.Array:
			return Val{T: resT, Term: fmt.Sprint(u.Len())}
		case *types.Pointer:
			if a, ok := u.Elem().Underlying().(*types.Array); ok {
				return Val{T: resT, Term: fmt.Sprint(a.Len())}
			}
		}
	case "append":
		return fr.execAppend(c, resT, cond, st)
	case "copy":
		dst, src := fr.val(c.Args[0]), fr.val(c.Args[1])
		srt := vc.S.Sort(c.Args[0].Type())
		d, s := vc.term(st, dst), vc.term(st, src)
		if isString(c.Args[1].Type()) {
			vc.outside("copy from string")
			return Val{T: resT, Term: vc.fresh("copyn", "Int")}
		}
		ld, ls := vc.sliceLen(srt, d), vc.sliceLen(srt, s)
		n := vc.define("copyn", "Int", ite(fmt.Sprintf("(<= %s %s)", ld, ls), ld, ls))
		e := vc.S.Sort(elemType(c.Args[0].Type()))
		arr := vc.fresh("copyarr", fmt.Sprintf("(Array Int %s)", e))
		vc.fact(fmt.Sprintf("(forall ((?i Int)) (! (= (select %s ?i) (ite (and (<= 0 ?i) (< ?i %s)) (select %s ?i) (select %s ?i))) :pattern ((select %s ?i))))", arr, n, sliceArr(srt, s), sliceArr(srt, d), arr))
		nv := mkSlice(srt, arr, ld, sliceNil(srt, d))
		switch {
		case dst.Obj != nil:
			vc.store(st, &Loc{Cell: dst.Obj}, nv)
		case dst.Home != nil:
			vc.store(st, dst.Home, nv)
		default:
			vc.outside("copy into a slice without identity in %s", fr.key)
		}
		return Val{T: resT, Term: n}
	case "delete":
		m := fr.val(c.Args[0])
		ms := vc.S.Sort(m.T)
		cur := vc.term(st, m)
		k := vc.term(st, fr.val(c.Args[1]))
		nv := mkMap(ms, fmt.Sprintf("(store %s %s false)", mapDom(ms, cur), k), mapVal(ms, cur), mapNil(ms, cur))
		if m.Obj != nil {
			vc.store(st, &Loc{Cell: m.Obj}, nv)
		} else if m.Home != nil {
			vc.store(st, m.Home, nv)
		} else {
			vc.outside("delete on a map without identity")
		}
		return Val{T: resT}
	case "print", "println":
		return Val{T: resT}
	}
	vc.outside("builtin %s", bi.Name())
	return fr.freshResult(resT)
}

// litLen returns the constant length of a slice term if syntactically evident.
func (fr *Frame) constSliceLen(v ssa.Value) (int, bool) {
	if s, ok := v.(*ssa.Slice); ok && s.Low == nil && s.High == nil {
		if p, ok := s.X.Type().Underlying().(*types.Pointer); ok {
			if a, ok := p.Elem().Underlying().(*types.Array); ok {
				return int(a.Len()), true
			}
		}
	}
	if c, ok := v.(*ssa.Const); ok && c.Value == nil {
		return 0, true
	}
	return 0, false
}

func (fr *Frame) execAppend(c *ssa.CallCommon, resT types.Type, cond string, st *State) Val {
	vc := fr.vc
	a, b := fr.val(c.Args[0]), fr.val(c.Args[1])
	srt := vc.S.Sort(resT)
	e := vc.S.Sort(elemType(resT))
	at, bt := vc.term(st, a), vc.term(st, b)
	la := vc.sliceLen(srt, at)
	if isString(c.Args[1].Type()) {
		vc.outside("append(bytes, string...)")
		return fr.freshResult(resT)
	}
	if n, ok := fr.constSliceLen(c.Args[1]); ok && n <= 6 {
		if n == 0 {
			return Val{T: resT, Term: at}
		}
		arr := sliceArr(srt, at)
		for i := 0; i < n; i++ {
			idx := la
			if i > 0 {
				idx = fmt.Sprintf("(+ %s %d)", la, i)
			}
			arr = fmt.Sprintf("(store %s %s %s)", arr, idx, sliceAt(srt, bt, fmt.Sprint(i)))
		}
		t := mkSlice(srt, arr, fmt.Sprintf("(+ %s %d)", la, n), "false")
		return Val{T: resT, Term: vc.define("app", srt, t)}
	}
	lb := vc.sliceLen(srt, bt)
	r := vc.fresh("app", srt)
	ra := sliceArr(srt, r)
	vc.fact(fmt.Sprintf("(= (len_%s %s) (+ %s %s))", srt, r, la, lb))
	vc.fact(fmt.Sprintf("(= (nil_%s %s) (and (nil_%s %s) (= %s 0)))", srt, r, srt, at, lb))
	// prefix, and both directions for the appended part (DESIGN 2.5)
	vc.fact(fmt.Sprintf("(forall ((?i Int)) (! (=> (and (<= 0 ?i) (< ?i %s)) (= (select %s ?i) (select %s ?i))) :pattern ((select %s ?i)) :pattern ((select %s ?i))))", la, ra, sliceArr(srt, at), ra, sliceArr(srt, at)))
	vc.fact(fmt.Sprintf("(forall ((?i Int)) (! (=> (and (<= 0 ?i) (< ?i %s)) (= (select %s (+ %s ?i)) (select %s ?i))) :pattern ((select %s ?i))))", lb, ra, la, sliceArr(srt, bt), sliceArr(srt, bt)))
	vc.fact(fmt.Sprintf("(forall ((?i Int)) (! (=> (and (<= %s ?i) (< ?i (+ %s %s))) (= (select %s ?i) (select %s (- ?i %s)))) :pattern ((select %s ?i))))", la, la, lb, ra, sliceArr(srt, bt), la, ra))
	if srt == "Slice_String" {
		// the elements of the result are those of both operands (a consequence of the positional facts above,
		// stated as a ground set equality so that no quantifier instantiation is needed to use it)
		vc.fact(fmt.Sprintf("(= %s %s)", vc.elemsOf(r), vc.setUnion(vc.elemsOf(at), vc.elemsOf(bt))))
	}
	// ground instance for the first appended element: gives E-matching a witness term when the
	// proof only knows "len(b) > 0"
	vc.fact(fmt.Sprintf("(=> (> %s 0) (= (select %s %s) (select %s 0)))", lb, ra, la, sliceArr(srt, bt)))
	_ = e
	return Val{T: resT, Term: r}
}

// ---------------------------------------------------------------- conversions, interfaces

func (fr *Frame) execConvert(in *ssa.Convert, st *State) Val {
	vc := fr.vc
	x := fr.val(in.X)
	from, to := in.X.Type(), in.Type()
	fs, ts := vc.S.Sort(from), vc.S.Sort(to)
	switch {
	case fs == ts && !(isString(to) && isInteger(from)):
		x.T = to
		return Val{T: to, Term: vc.term(st, x)}
	case isString(to) && isInteger(from):
		// string(rune): UTF-8 encoding of the code point (A7)
		vc.declareFun("string_of_rune", []string{"Int"}, "String")
		r := vc.term(st, x)
		key := "sor:" + r
		if !vc.wf[key] {
			vc.wf[key] = true
			vc.fact(fmt.Sprintf("(=> (and (<= 0 %s) (< %s 128)) (= (string_of_rune %s) (str.from_code %s)))", r, r, r, r))
			vc.fact(fmt.Sprintf("(>= (str.len (string_of_rune %s)) 1)", r))
			vc.fact(fmt.Sprintf("(=> (>= %s 128) (not (str.contains (string_of_rune %s) \"%%\")))", r, r))
		}
		return Val{T: to, Term: fmt.Sprintf("(string_of_rune %s)", r)}
	case isString(to) && x.Runes != nil:
		// string(rs) for a window rs of []rune(s): the bytes between the offsets of its first and one-past-last rune
		rs := vc.term(st, x)
		lo := x.Runes.Lo
		hi := fmt.Sprintf("(+ %s (len_%s %s))", lo, fs, rs)
		return Val{T: to, Term: fmt.Sprintf("(str.substr %s (rune_off %s %s) (- (rune_off %s %s) (rune_off %s %s)))", x.Runes.S, x.Runes.S, lo, x.Runes.S, hi, x.Runes.S, lo)}
	case isString(to): // string([]byte) / string([]rune)
		n := "string_of_" + convKind(from)
		vc.declareFun(n, []string{fs}, "String")
		return Val{T: to, Term: fmt.Sprintf("(%s %s)", n, vc.term(st, x))}
	case isString(from): // []byte(s) / []rune(s)
		n := "to_" + convKind(to)
		vc.declareFun(n, []string{"String"}, ts)
		t := fmt.Sprintf("(%s %s)", n, vc.term(st, x))
		inv := "string_of_" + convKind(to)
		vc.declareFun(inv, []string{ts}, "String")
		key := "conv:" + t
		if !vc.wf[key] {
			vc.wf[key] = true
			vc.fact(fmt.Sprintf("(= (%s %s) %s)", inv, t, vc.term(st, x)))
			vc.fact(fmt.Sprintf("(not (nil_%s %s))", ts, t))
			if e := elemType(to); e != nil {
				if b, ok := e.Underlying().(*types.Basic); ok && b.Kind() == types.Uint8 {
					vc.fact(fmt.Sprintf("(= (len_%s %s) (str.len %s))", ts, t, vc.term(st, x)))
				} else {
					vc.fact(fmt.Sprintf("(<= (len_%s %s) (str.len %s))", ts, t, vc.term(st, x)))
					vc.fact(fmt.Sprintf("(>= (len_%s %s) 0)", ts, t))
					vc.fact(fmt.Sprintf("(= (= (len_%s %s) 0) (= %s \"\"))", ts, t, vc.term(st, x)))
					// A7 (valid UTF-8): rune k of s occupies the bytes rune_off(s,k) .. rune_off(s,k+1)-1 (1 to 4 of them),
					// the offsets start at 0, end at len(s) and grow; string(r) of rune k is exactly that segment
					sx := vc.term(st, x)
					n := fmt.Sprintf("(len_%s %s)", ts, t)
					vc.declareFun("rune_off", []string{"String", "Int"}, "Int")
					vc.declareFun("string_of_rune", []string{"Int"}, "String")
					vc.Assumed["A7: strings converted to []rune are valid UTF-8: rune k occupies 1..4 bytes at a growing offset, string(r) is that segment, the offsets cover the string"] = true
					vc.fact(fmt.Sprintf("(= (rune_off %s 0) 0)", sx))
					vc.fact(fmt.Sprintf("(= (rune_off %s %s) (str.len %s))", sx, n, sx))
					vc.fact(fmt.Sprintf("(forall ((?k Int)) (! (=> (and (<= 0 ?k) (< ?k %s)) (and (>= (- (rune_off %s (+ ?k 1)) (rune_off %s ?k)) 1) (<= (- (rune_off %s (+ ?k 1)) (rune_off %s ?k)) 4) (>= (rune_off %s ?k) 0) (= (string_of_rune (select (arr_%s %s) ?k)) (str.substr %s (rune_off %s ?k) (- (rune_off %s (+ ?k 1)) (rune_off %s ?k)))) (= (= (- (rune_off %s (+ ?k 1)) (rune_off %s ?k)) 1) (< (select (arr_%s %s) ?k) 128)) (>= (select (arr_%s %s) ?k) 0))) :pattern ((select (arr_%s %s) ?k)) :pattern ((rune_off %s ?k))))",
						n, sx, sx, sx, sx, sx, ts, t, sx, sx, sx, sx, sx, sx, ts, t, ts, t, ts, t, sx))
					vc.fact(fmt.Sprintf("(forall ((?j Int) (?k Int)) (! (=> (and (<= 0 ?j) (<= ?j ?k) (<= ?k %s)) (>= (- (rune_off %s ?k) (rune_off %s ?j)) (- ?k ?j))) :pattern ((rune_off %s ?j) (rune_off %s ?k))))", n, sx, sx, sx, sx))
					return Val{T: to, Term: t, Runes: &RuneSrc{S: sx, Lo: "0"}}
				}
			}
		}
		if convKind(to) == "runes" {
			return Val{T: to, Term: t, Runes: &RuneSrc{S: vc.term(st, x), Lo: "0"}}
		}
		return Val{T: to, Term: t}
	}
	vc.outside("conversion %s -> %s", from, to)
	return Val{T: to, Term: vc.fresh("conv", ts)}
}

// convKind names the two string<->slice conversions apart ([]byte vs []rune share the sort Slice_Int).
func convKind(t types.Type) string {
	if e := elemType(t); e != nil {
		if b, ok := e.Underlying().(*types.Basic); ok && b.Kind() == types.Uint8 {
			return "bytes"
		}
	}
	return "runes"
}

// typeTag returns a distinct Int constant identifying a concrete Go type.
func (vc *VC) typeTag(t types.Type) string {
	name := "tag_" + sanitize(types.TypeString(t, func(p *types.Package) string { return shortPkg(p) }))
	if !vc.declOf[name] {
		vc.declareConst(name, "Int")
		// distinctness of all tags declared so far
		vc.tags = append(vc.tags, name)
		if len(vc.tags) > 1 {
			for _, o := range vc.tags[:len(vc.tags)-1] {
				vc.fact(fmt.Sprintf("(not (= %s %s))", name, o))
			}
		}
	}
	return name
}

// elemSize: the size in bytes of a value of type t on a 64-bit platform (0 if unknown, e.g. a type parameter).
func elemSize(t types.Type) (sz int64) {
	defer func() {
		if recover() != nil {
			sz = 0
		}
	}()
	if _, isTP := types.Unalias(t).(*types.TypeParam); isTP {
		return 0
	}
	return types.SizesFor("gc", "amd64").Sizeof(t)
}

// tag of the interface values that stand for reflect.Type descriptors obtained from reflect.TypeOf
const reflectTypeTag = 990001

// Reflect kinds for aprim: the concrete numeric kinds other than int.
func primKind(t types.Type) (int, bool) {
	b, ok := t.Underlying().(*types.Basic)
	if !ok {
		return 0, false
	}
	switch b.Kind() {
	case types.Int8:
		return 3, true
	case types.Int16:
		return 4, true
	case types.Int32:
		return 5, true
	case types.Int64:
		return 6, true
	case types.Uint:
		return 7, true
	case types.Uint8:
		return 8, true
	case types.Uint16:
		return 9, true
	case types.Uint32:
		return 10, true
	case types.Uint64:
		return 11, true
	case types.Float32:
		return 13, true
	case types.Float64:
		return 14, true
	}
	return 0, false
}

func (fr *Frame) makeInterface(x Val, from, to types.Type, st *State) Val {
	vc := fr.vc
	ts := vc.S.Sort(to)
	switch ts {
	case "Any":
		if _, isNamed := types.Unalias(from).(*types.Named); !isNamed || isErrorType(from) {
			switch u := from.Underlying().(type) {
			case *types.Basic:
				switch {
				case u.Info()&types.IsString != 0:
					return Val{T: to, Term: fmt.Sprintf("(astr %s)", vc.term(st, x))}
				case u.Info()&types.IsBoolean != 0:
					return Val{T: to, Term: fmt.Sprintf("(abool %s)", vc.term(st, x))}
				case u.Kind() == types.Int:
					return Val{T: to, Term: fmt.Sprintf("(aint %s)", vc.term(st, x))}
				}
				if k, ok := primKind(from); ok {
					return Val{T: to, Term: fmt.Sprintf("(aprim %d %s)", k, vc.term(st, x))}
				}
			case *types.Slice:
				if vc.S.Sort(from) == "Slice_Any" {
					id := vc.fresh("listid", "Int")
					vc.declareFun("anylist", []string{"Int"}, "Slice_Any")
					vc.fact(fmt.Sprintf("(= (anylist %s) %s)", id, vc.term(st, x)))
					return Val{T: to, Term: fmt.Sprintf("(alist %s)", id)}
				}
			case *types.Map:
				if vc.S.Sort(from) == "Map_String_Any" {
					id := vc.fresh("dictid", "Int")
					vc.declareFun("anydict", []string{"Int"}, "Map_String_Any")
					vc.fact(fmt.Sprintf("(= (anydict %s) %s)", id, vc.term(st, x)))
					return Val{T: to, Term: fmt.Sprintf("(adict %s)", id)}
				}
			}
		}
		if isErrorType(from) || vc.S.Sort(from) == "Err" {
			e := vc.term(st, x)
			return Val{T: to, Term: ite(eq(e, "enil"), "anil", fmt.Sprintf("(aother %s (emk_id %s))", vc.typeTag(from), e))}
		}
		// any other dynamic type: opaque payload determined by the value (functional boxing)
		fs := vc.S.Sort(from)
		box := "box_" + fs
		vc.declareFun(box, []string{fs}, "Int")
		return Val{T: to, Term: fmt.Sprintf("(aother %s (%s %s))", vc.typeTag(from), box, vc.term(st, x))}
	case "Err":
		fs := vc.S.Sort(from)
		box := "errbox_" + fs
		vc.declareFun(box, []string{fs}, "Int")
		return Val{T: to, Term: fmt.Sprintf("(emk (%s %s))", box, vc.term(st, x))}
	case "Iface":
		fs := vc.S.Sort(from)
		box := "box_" + fs
		vc.declareFun(box, []string{fs}, "Int")
		return Val{T: to, Term: fmt.Sprintf("(iobj %s (%s %s))", vc.typeTag(from), box, vc.term(st, x))}
	}
	vc.outside("MakeInterface %s -> %s", from, to)
	return Val{T: to, Term: vc.fresh("iface", ts)}
}

func (fr *Frame) convertIface(x Val, to types.Type, st *State) Val {
	vc := fr.vc
	fs, ts := vc.S.Sort(x.T), vc.S.Sort(to)
	if fs == ts {
		x.T = to
		return x
	}
	t := vc.term(st, x)
	switch {
	case fs == "Iface" && ts == "Any":
		return Val{T: to, Term: ite(eq(t, "inil"), "anil", fmt.Sprintf("(aother (iobj_tag %s) (iobj_id %s))", t, t))}
	case fs == "Err" && ts == "Any":
		return Val{T: to, Term: ite(eq(t, "enil"), "anil", fmt.Sprintf("(aother 0 (emk_id %s))", t))}
	}
	vc.outside("interface conversion %s -> %s", fs, ts)
	return Val{T: to, Term: vc.fresh("ci", ts)}
}

func (fr *Frame) execTypeAssert(in *ssa.TypeAssert, cond string, st *State) Val {
	vc := fr.vc
	x := fr.val(in.X)
	xs := vc.S.Sort(in.X.Type())
	at := in.AssertedType
	t := vc.term(st, x)
	var ok, val string
	as := vc.S.Sort(at)
	switch xs {
	case "Any":
		_, isNamed := types.Unalias(at).(*types.Named)
		u := at.Underlying()
		switch {
		case !isNamed && isString(at):
			ok, val = fmt.Sprintf("((_ is astr) %s)", t), fmt.Sprintf("(astr_v %s)", t)
		case !isNamed && as == "Bool":
			ok, val = fmt.Sprintf("((_ is abool) %s)", t), fmt.Sprintf("(abool_v %s)", t)
		case !isNamed && isBasicKind(u, types.Int):
			ok, val = fmt.Sprintf("((_ is aint) %s)", t), fmt.Sprintf("(aint_v %s)", t)
		case !isNamed && as == "Slice_Any":
			vc.declareFun("anylist", []string{"Int"}, "Slice_Any")
			ok, val = fmt.Sprintf("((_ is alist) %s)", t), fmt.Sprintf("(anylist (alist_id %s))", t)
		case !isNamed && as == "Map_String_Any":
			vc.declareFun("anydict", []string{"Int"}, "Map_String_Any")
			ok, val = fmt.Sprintf("((_ is adict) %s)", t), fmt.Sprintf("(anydict (adict_id %s))", t)
		case as == "Any":
			ok, val = "true", t
		default:
			if k, isPrim := primKind(at); isPrim && !isNamed {
				ok, val = fmt.Sprintf("(and ((_ is aprim) %s) (= (aprim_kind %s) %d))", t, t, k), fmt.Sprintf("(aprim_id %s)", t)
			} else if _, isIface := u.(*types.Interface); isIface {
				vc.declareFun("implements", []string{"Any", "Int"}, "Bool")
				ok = fmt.Sprintf("(implements %s %s)", t, vc.typeTag(at))
				val = vc.fresh("asserted", as)
			} else {
				unbox := "unbox_" + as
				vc.declareFun(unbox, []string{"Int"}, as)
				ok = fmt.Sprintf("(and ((_ is aother) %s) (= (aother_tag %s) %s))", t, t, vc.typeTag(at))
				val = fmt.Sprintf("(%s (aother_id %s))", unbox, t)
			}
		}
	case "Iface", "Err":
		if _, isIface := at.Underlying().(*types.Interface); isIface {
			n := "implements_" + xs
			vc.declareFun(n, []string{xs, "Int"}, "Bool")
			ok = fmt.Sprintf("(%s %s %s)", n, t, vc.typeTag(at))
			if as == xs {
				val = t
			} else {
				val = vc.fresh("asserted", as)
			}
		} else {
			unbox := "unbox_" + as
			vc.declareFun(unbox, []string{"Int"}, as)
			if xs == "Iface" {
				ok = fmt.Sprintf("(and ((_ is iobj) %s) (= (iobj_tag %s) %s))", t, t, vc.typeTag(at))
				val = fmt.Sprintf("(%s (iobj_id %s))", unbox, t)
			} else {
				ok = vc.fresh("asserr", "Bool")
				val = vc.fresh("asserted", as)
			}
		}
	default:
		vc.outside("type assertion on %s", xs)
		ok, val = vc.fresh("taok", "Bool"), vc.fresh("taval", as)
	}
	if in.CommaOk {
		return Val{T: in.Type(), Tuple: []Val{{T: at, Term: ite(ok, val, vc.S.Zero(at))}, {T: types.Typ[types.Bool], Term: ok}}}
	}
	vc.oblige(fr.top.oname(), "safe:type-assert", fr.siteLabel(), fr.top.props, cond, ok)
	return Val{T: at, Term: val}
}

func isBasicKind(t types.Type, k types.BasicKind) bool {
	b, ok := t.(*types.Basic)
	return ok && b.Kind() == k
}

// ---------------------------------------------------------------- hard-wired models of externals

// modelExternal gives a precise meaning to a few externals whose shape (variadic
// formats, known regular expressions) cannot be stated in the contract language.
func (fr *Frame) modelExternal(callee *ssa.Function, c *ssa.CallCommon, args []Val, resT types.Type, cond string, st *State) (Val, bool) {
	vc := fr.vc
	q := qualifiedName(callee)
	switch q {
	case "reflect.TypeOf":
		// reflect.TypeOf(v): nil for a nil interface, otherwise a type descriptor that remembers the value's encoding
		// (so that Kind() can be read off it); nothing else about the descriptor is modelled
		if len(args) == 1 && vc.S.Sort(args[0].T) == "Any" {
			vc.Assumed["model of reflect: TypeOf(v).Kind() is the kind under which the value was boxed (string, bool, int, the sized numeric kinds, slice for []any, map for map[string]any; unknown for other dynamic types)"] = true
			a := vc.term(st, args[0])
			vc.declareFun("rtype_id", []string{"Any"}, "Int")
			vc.declareFun("rtype_any", []string{"Int"}, "Any")
			vc.fact(fmt.Sprintf("(= (rtype_any (rtype_id %s)) %s)", a, a))
			return Val{T: resT, Term: ite(eq(a, "anil"), "inil", fmt.Sprintf("(iobj %d (rtype_id %s))", reflectTypeTag, a))}, true
		}
	case "gopkg.in/yaml.v3.Unmarshal":
		// yaml.Unmarshal(in, &x): the decoder is a function of the bytes and of the target type (assumed: yaml.v3 is
		// deterministic and reads nothing but its input). On error the target may hold anything.
		mi, ok := c.Args[1].(*ssa.MakeInterface)
		if !ok {
			break
		}
		pt, ok := mi.X.Type().Underlying().(*types.Pointer)
		if !ok {
			break
		}
		target := fr.val(mi.X)
		if target.Loc == nil {
			break
		}
		vc.Assumed["assumed contract: gopkg.in/yaml.v3.Unmarshal is a function of its input bytes and the target type (error and, on success, decoded value)"] = true
		srt := vc.S.Sort(pt.Elem())
		en, vn := yamlFuncs(vc, srt)
		in := vc.term(st, args[0])
		errT := vc.define("yaml_err", "Err", fmt.Sprintf("(%s %s)", en, in))
		nv := vc.fresh("yaml_out", srt)
		// yaml.v3 decodes *into* its target (maps keep their entries, absent keys keep their old value): the decoded
		// value is a function of the bytes only when the target holds its zero value before the call
		prev := vc.load(st, target.Loc)
		vc.fact(implies(and(eq(errT, "enil"), eq(prev, vc.S.Zero(pt.Elem()))), eq(nv, fmt.Sprintf("(%s %s)", vn, in))))
		vc.store(st, target.Loc, nv)
		return Val{T: resT, Term: errT}, true
	case "fmt.Sprintf", "fmt.Errorf":
		format, isConst := "", false
		if k, ok := c.Args[0].(*ssa.Const); ok && k.Value != nil && k.Value.Kind() == constant.String {
			format, isConst = constant.StringVal(k.Value), true
		}
		var elems []Val
		if n, ok := fr.constSliceLen(c.Args[1]); ok {
			srt := vc.S.Sort(c.Args[1].Type())
			for i := 0; i < n; i++ {
				elems = append(elems, Val{T: elemType(c.Args[1].Type()), Term: sliceAt(srt, vc.term(st, args[1]), fmt.Sprint(i))})
			}
		} else {
			isConst = false
		}
		vc.Assumed["model: fmt verbs %s %d %q %+q %T %v %w are expanded / uninterpreted per verb (DESIGN 2.3)"] = true
		if q == "fmt.Sprintf" {
			if isConst {
				if s, ok := fr.expandFormat(format, elems); ok {
					return Val{T: resT, Term: s}, true
				}
			}
			return fr.uninterpretedCall(callee, args, resT, st), true
		}
		// Errorf: a non-nil error determined by format and arguments
		fname := "errorf_" + sanitize(format)
		if !isConst {
			fname = "errorf_dyn"
		}
		if len(fname) > 50 {
			fname = fname[:50] + fmt.Sprintf("_%d", len(format))
		}
		var sorts, terms []string
		if !isConst {
			sorts, terms = append(sorts, "String"), append(terms, vc.term(st, args[0]))
			sorts, terms = append(sorts, vc.S.Sort(args[1].T)), append(terms, vc.term(st, args[1]))
		}
		for _, e := range elems {
			sorts = append(sorts, "Any")
			terms = append(terms, e.Term)
		}
		vc.declareFun(fname, sorts, "Int")
		app := fname
		if len(terms) > 0 {
			app = "(" + fname + " " + strings.Join(terms, " ") + ")"
		}
		return Val{T: resT, Term: "(emk " + app + ")"}, true
	case "sort.Strings", "sort.Slice", "sort.SliceStable":
		return fr.modelSort(q, c, args, resT, cond, st), true
	case "errors.New":
		vc.declareFun("errors_new", []string{"String"}, "Int")
		return Val{T: resT, Term: fmt.Sprintf("(emk (errors_new %s))", vc.term(st, args[0]))}, true
	case "regexp.(*Regexp).MatchString":
		if args[0].Re != nil {
			re, err := RegexToSMT(*args[0].Re)
			if err != nil {
				vc.outside("regex translation of %q: %v", *args[0].Re, err)
				return Val{T: resT, Term: vc.fresh("match", "Bool")}, true
			}
			vc.Assumed["A9: regexp.MatchString is membership in the language of the regexp/syntax AST of the constant pattern"] = true
			return Val{T: resT, Term: fmt.Sprintf("(str.in_re %s %s)", vc.term(st, args[1]), re)}, true
		}
	}
	return Val{}, false
}

// expandFormat expands a constant format string over boxed (Any) arguments.
func (fr *Frame) expandFormat(format string, elems []Val) (string, bool) {
	vc := fr.vc
	var parts []string
	lit := ""
	flush := func() {
		if lit != "" {
			parts = append(parts, strLit(lit))
			lit = ""
		}
	}
	ai := 0
	for i := 0; i < len(format); i++ {
		ch := format[i]
		if ch != '%' {
			lit += string(ch)
			continue
		}
		i++
		if i >= len(format) {
			return "", false
		}
		verb := ""
		for i < len(format) && strings.ContainsRune("+#- 0123456789.", rune(format[i])) {
			verb += string(format[i])
			i++
		}
		if i >= len(format) {
			return "", false
		}
		verb += string(format[i])
		if verb == "%" {
			lit += "%"
			continue
		}
		if ai >= len(elems) {
			return "", false
		}
		a := elems[ai].Term
		ai++
		flush()
		switch verb {
		case "s":
			// %s of a string is the string; of anything else it is uninterpreted
			vc.declareFun("fmt_s", []string{"Any"}, "String")
			parts = append(parts, fmt.Sprintf("(ite ((_ is astr) %s) (astr_v %s) (fmt_s %s))", a, a, a))
		case "d":
			vc.declareFun("fmt_d", []string{"Any"}, "String")
			parts = append(parts, fmt.Sprintf("(ite (and ((_ is aint) %s) (>= (aint_v %s) 0)) (str.from_int (aint_v %s)) (fmt_d %s))", a, a, a, a))
		case "q", "+q":
			vc.declareFun("fmt_q", []string{"Any"}, "String")
			parts = append(parts, fmt.Sprintf("(fmt_q %s)", a))
		default:
			fn := "fmt_" + sanitize(verb)
			vc.declareFun(fn, []string{"Any"}, "String")
			parts = append(parts, fmt.Sprintf("(%s %s)", fn, a))
		}
	}
	flush()
	if ai != len(elems) {
		return "", false
	}
	switch len(parts) {
	case 0:
		return `""`, true
	case 1:
		return parts[0], true
	}
	return "(str.++ " + strings.Join(parts, " ") + ")", true
}

// execIterate models maps.Iterate(m, f) at its call sites as a loop that visits the
// keys of m in strictly increasing order, running f's body inline each time
// (higher-order contract of maps.Iterate, see DESIGN.md 2.3): at the iteration
// that delivers key k, the set of keys already delivered is {x in dom(m) | x < k}.
func (fr *Frame) execIterate(c *ssa.CallCommon, args []Val, resT types.Type, cond string, st *State) Val {
	vc := fr.vc
	vc.Assumed["HO-contract maps.Iterate: f(k, m[k]) is called once per key in strictly increasing key order (proved for maps.Keys + 3-line body of Iterate, see evidence of C08)"] = true
	m := args[0]
	clo := args[1].Clo
	if clo == nil || clo.Fn.Blocks == nil {
		return fr.havocCall("maps.Iterate with unknown callback", c, args, resT, cond, st)
	}
	mt := m.T.Underlying().(*types.Map)
	ms := vc.S.Sort(m.T)
	ks := vc.S.Sort(mt.Key())
	mterm := vc.term(st, m)
	vcell := &Cell{Name: "visited", Sort: fmt.Sprintf("(Array %s Bool)", ks)}
	vc.n++
	vcell.id = vc.n
	st.cells[vcell] = fmt.Sprintf("((as const (Array %s Bool)) false)", ks)
	ord := fr.virtOrd[c.Pos()]
	li := &loopInfo{ordinal: ord, frame: fr, rng: &RangeState{Map: Val{T: m.T, Term: mterm}, Visited: vcell, KeySort: ks}}
	if of := fr.loopOwnerFrame(); of.spec != nil {
		li.spec = of.spec.Loops[ord]
		if of != fr {
			li.ownerKey = of.key
		}
	}
	li.entryState = st.clone()
	fr.checkInvariants(li, cond, st, "inv-init")
	// cells written by the callback
	cells := map[*Cell]bool{}
	all := false
	fv := map[*ssa.FreeVar]Val{}
	for i, f := range clo.Fn.FreeVars {
		if i < len(clo.Bindings) {
			fv[f] = clo.Bindings[i]
		}
	}
	fr.curState = st
	fr.lastPartial = map[*Cell]map[int]bool{}
	fr.collectWrites(clo.Fn.Blocks, map[ssa.Value]Val{}, fv, cells, &all, 0)
	partial := fr.lastPartial
	if all {
		for cl := range st.cells {
			cells[cl] = true
		}
	}
	cells[vcell] = true
	havoc := func(s *State) {
		var cl []*Cell
		for cc := range cells {
			cl = append(cl, cc)
		}
		sortCells(cl)
		for _, cc := range cl {
			fr.havocCell(s, cc, partial[cc])
		}
		vis := s.cells[vcell]
		vc.fact(implies(cond, fmt.Sprintf("(forall ((?k %s)) (=> (select %s ?k) (and (not %s) %s)))", ks, vis, mapNil(ms, mterm), mapHas(ms, mterm, "?k"))))
		fr.assumeInvariants(li, cond, s)
	}
	// one arbitrary iteration
	body := st.clone()
	havoc(body)
	vis := body.cells[vcell]
	k := vc.fresh("it_k", ks)
	vc.fact(implies(cond, and(not(mapNil(ms, mterm)), mapHas(ms, mterm, k), not(fmt.Sprintf("(select %s %s)", vis, k)))))
	if ks == "String" {
		vc.fact(implies(cond, fmt.Sprintf("(forall ((?k String)) (= (select %s ?k) (and %s (str.< ?k %s))))", vis, mapHas(ms, mterm, "?k"), k)))
	}
	kv := Val{T: mt.Key(), Term: k}
	vv := Val{T: mt.Elem(), Term: mapGet(ms, mterm, k)}
	savedIter := fr.activeIter
	fr.activeIter = li
	fr.callClosure(clo, []Val{kv, vv}, types.NewTuple(), cond, body, nil)
	fr.activeIter = savedIter
	body.cells[vcell] = fmt.Sprintf("(store %s %s true)", vis, k)
	savedPos := vc.curPos
	vc.curPos = fr.pos(c.Pos())
	fr.checkInvariants(li, cond, body, "inv-preserved")
	vc.curPos = savedPos
	// after the loop
	havoc(st)
	vc.fact(implies(cond, fmt.Sprintf("(forall ((?k %s)) (=> (and (not %s) %s) (select %s ?k)))", ks, mapNil(ms, mterm), mapHas(ms, mterm, "?k"), st.cells[vcell])))
	return Val{T: resT}
}

func sortCells(cl []*Cell) {
	for i := 1; i < len(cl); i++ {
		for j := i; j > 0 && cl[j].id < cl[j-1].id; j-- {
			cl[j], cl[j-1] = cl[j-1], cl[j]
		}
	}
}

// modelSort models sort.Strings / sort.Slice / sort.SliceStable (A6): afterwards the slice is a
// permutation of what it was (witnessed by an injective index map and its inverse) and is ordered:
// for sort.Strings by <=; for sort.Slice by the comparison closure, which is executed symbolically
// once on two fresh indices and generalised (only loop-free closures without calls qualify).
func (fr *Frame) modelSort(q string, c *ssa.CallCommon, args []Val, resT types.Type, cond string, st *State) Val {
	vc := fr.vc
	vc.Assumed["A6: "+q+" leaves a permutation of the slice that is ordered by the given order"] = true
	x := args[0]
	// sort.Slice takes `any`: recover the slice value behind the MakeInterface
	if mi, ok := c.Args[0].(*ssa.MakeInterface); ok {
		x = fr.val(mi.X)
	}
	stt, ok := x.T.Underlying().(*types.Slice)
	if !ok || (x.Obj == nil && x.Home == nil) {
		vc.outside("%s on a value that is not an identifiable slice", q)
		return Val{T: resT}
	}
	srt := vc.S.Sort(x.T)
	es := vc.S.Sort(stt.Elem())
	old := vc.define("presort", srt, vc.term(st, x))
	nw := vc.fresh("sorted", srt)
	ln := vc.sliceLen(srt, old)
	vc.n++
	pi, inv := fmt.Sprintf("perm!%d", vc.n), fmt.Sprintf("perminv!%d", vc.n)
	vc.declareFun(pi, []string{"Int"}, "Int")
	vc.declareFun(inv, []string{"Int"}, "Int")
	vc.fact(fmt.Sprintf("(= (len_%s %s) %s)", srt, nw, ln))
	vc.fact(fmt.Sprintf("(= (nil_%s %s) (nil_%s %s))", srt, nw, srt, old))
	vc.fact(fmt.Sprintf("(forall ((?i Int)) (! (=> (and (<= 0 ?i) (< ?i %s)) (and (<= 0 (%s ?i)) (< (%s ?i) %s) (= (%s (%s ?i)) ?i) (= (select (arr_%s %s) ?i) (select (arr_%s %s) (%s ?i))))) :pattern ((select (arr_%s %s) ?i))))", ln, pi, pi, ln, inv, pi, srt, nw, srt, old, pi, srt, nw))
	vc.fact(fmt.Sprintf("(forall ((?j Int)) (! (=> (and (<= 0 ?j) (< ?j %s)) (and (<= 0 (%s ?j)) (< (%s ?j) %s) (= (%s (%s ?j)) ?j))) :pattern ((select (arr_%s %s) ?j))))", ln, inv, inv, ln, pi, inv, srt, old))
	write := func(v string) {
		if x.Obj != nil {
			vc.store(st, &Loc{Cell: x.Obj}, v)
		} else {
			vc.store(st, x.Home, v)
		}
	}
	write(nw)
	switch q {
	case "sort.Strings":
		vc.fact(fmt.Sprintf("(forall ((?i Int) (?j Int)) (! (=> (and (<= 0 ?i) (< ?i ?j) (< ?j %s)) (str.<= (select (arr_%s %s) ?i) (select (arr_%s %s) ?j))) :pattern ((select (arr_%s %s) ?i) (select (arr_%s %s) ?j))))", ln, srt, nw, srt, nw, srt, nw, srt, nw))
	default:
		less := args[1].Clo
		if less == nil || less.Fn.Blocks == nil || len(less.Fn.Blocks) != 1 {
			vc.warn("%s: comparison is not a single-block closure; order of the result is unknown", q)
			break
		}
		for _, in := range less.Fn.Blocks[0].Instrs {
			if _, isCall := in.(*ssa.Call); isCall {
				vc.warn("%s: comparison closure contains a call; order of the result is unknown", q)
				return Val{T: resT}
			}
		}
		ci, cj := vc.fresh("sorti", "Int"), vc.fresh("sortj", "Int")
		guard := vc.fresh("sortguard", "Bool")
		vc.fact(fmt.Sprintf("(= %s (and (<= 0 %s) (< %s %s) (<= 0 %s) (< %s %s)))", guard, ci, ci, ln, cj, cj, ln))
		nd, nf := len(vc.decls), len(vc.facts)
		sandbox := st.clone()
		r := fr.callClosure(less, []Val{{T: types.Typ[types.Int], Term: ci}, {T: types.Typ[types.Int], Term: cj}}, types.Typ[types.Bool], and(cond, guard), sandbox, nil)
		if len(vc.decls) != nd {
			vc.warn("%s: comparison closure is too complex to generalise; order of the result is unknown", q)
			break
		}
		// facts produced inside the sandbox that mention the fresh indices are generalised together with the result
		body := r.Term
		var keep, keepG, extra []string
		for k := nf; k < len(vc.facts); k++ {
			f := vc.facts[k]
			if strings.Contains(f, ci) || strings.Contains(f, cj) || strings.Contains(f, guard) {
				extra = append(extra, f)
			} else {
				keep = append(keep, f)
				keepG = append(keepG, vc.fgroup[k])
			}
		}
		vc.facts = append(vc.facts[:nf], keep...)
		vc.fgroup = append(vc.fgroup[:nf], keepG...)
		subst := func(t string) string {
			// sorted[b] is not less than sorted[a] for b < a: less(a, b) is false
			t = strings.ReplaceAll(t, ci, "?a")
			t = strings.ReplaceAll(t, cj, "?b")
			t = strings.ReplaceAll(t, guard, "true")
			return t
		}
		hyp := []string{"(<= 0 ?b)", "(< ?b ?a)", fmt.Sprintf("(< ?a %s)", ln)}
		for _, e := range extra {
			hyp = append(hyp, subst(e))
		}
		vc.fact(implies(cond, fmt.Sprintf("(forall ((?a Int) (?b Int)) (=> (and %s) (not %s)))", strings.Join(hyp, " "), subst(body))))
		_ = es
	}
	return Val{T: resT}
}

// dynName is the uninterpreted "apply" symbol for function values of one signature.
func (vc *VC) dynName(sig *types.Signature) (string, []string, []string) {
	var as, rs []string
	for i := 0; i < sig.Params().Len(); i++ {
		as = append(as, vc.S.Sort(sig.Params().At(i).Type()))
	}
	for i := 0; i < sig.Results().Len(); i++ {
		rs = append(rs, vc.S.Sort(sig.Results().At(i).Type()))
	}
	return "apply_" + sanitize(strings.Join(as, "_")+"__"+strings.Join(rs, "_")), as, rs
}

// dynCall models a call through a function value whose target is not known statically. If no
// argument is a pointer (nothing reachable can be written) and there are results, the call is
// treated as the application of an uninterpreted function of the function value and the
// arguments; for every function of /repo with a pure contract that has been turned into a
// function value in this unit, apply(fn_F, args) equals F(args) as constrained by F's contract.
func (fr *Frame) dynCall(fv Val, c *ssa.CallCommon, args []Val, resT types.Type, cond string, st *State) Val {
	vc := fr.vc
	sig, ok := c.Value.Type().Underlying().(*types.Signature)
	if ok && sig.Results().Len() == 0 {
		// a callback without results: its call is recorded in the effect trace (operation "dyncall", string arguments kept)
		hasPtr := false
		for _, a := range args {
			if a.Loc != nil {
				hasPtr = true
			}
			if _, isPtr := a.T.Underlying().(*types.Pointer); isPtr {
				hasPtr = true
			}
		}
		if !hasPtr && fv.Clo == nil {
			pre := st.clone()
			fr.logCall(st, pre, "dyncall", "", args, nil)
			return Val{T: resT}
		}
	}
	// a decode callback (yaml.v3 hands `func(interface{}) error` to UnmarshalYAML): called with a pointer to a local, it
	// is modelled like yaml.Unmarshal - its error and, on success, the decoded value are functions of the callback and of
	// the target type (assumed: decoding the same node into the same type gives the same result); on error the target may
	// hold anything
	if ok && fv.Term != "" && sig.Params().Len() == 1 && sig.Results().Len() == 1 && isErrorType(sig.Results().At(0).Type()) && len(c.Args) == 1 {
		if mi, isMI := c.Args[0].(*ssa.MakeInterface); isMI {
			if pt, isPtr := mi.X.Type().Underlying().(*types.Pointer); isPtr {
				if target := fr.val(mi.X); target.Loc != nil {
					vc.Assumed["assumed contract: a decode callback func(interface{}) error is a function of the callback and the target type (error and, on success, decoded value)"] = true
					srt := vc.S.Sort(pt.Elem())
					en, vn := decodeFuncs(vc, srt)
					errT := vc.define("decode_err", "Err", fmt.Sprintf("(%s %s)", en, fv.Term))
					nv := vc.fresh("decode_out", srt)
					// (as for yaml.Unmarshal: only a target that holds its zero value receives exactly the decoded value)
					prev := vc.load(st, target.Loc)
					vc.fact(implies(and(eq(errT, "enil"), eq(prev, vc.S.Zero(pt.Elem()))), eq(nv, fmt.Sprintf("(%s %s)", vn, fv.Term))))
					vc.store(st, target.Loc, nv)
					return Val{T: resT, Term: errT}
				}
			}
		}
	}
	if !ok || fv.Term == "" || sig.Results().Len() == 0 {
		return fr.havocCall("dynamic call", c, args, resT, cond, st)
	}
	for _, a := range args {
		if a.Loc != nil {
			return fr.havocCall("dynamic call with pointer arguments", c, args, resT, cond, st)
		}
		switch a.T.Underlying().(type) {
		case *types.Pointer:
			return fr.havocCall("dynamic call with pointer arguments", c, args, resT, cond, st)
		}
	}
	vc.Assumed["function values called dynamically without pointer arguments are deterministic functions of their arguments (they are validators / pure callbacks in /repo)"] = true
	name, as, rs := vc.dynName(sig)
	var terms []string
	for _, a := range args {
		terms = append(terms, vc.term(st, a))
	}
	var res []Val
	for i, r := range rs {
		n := name
		if i > 0 {
			n += fmt.Sprintf("_r%d", i)
		}
		vc.declareFun(n, append([]string{"Int"}, as...), r)
		res = append(res, Val{T: sig.Results().At(i).Type(), Term: "(" + n + " " + strings.Join(append([]string{fv.Term}, terms...), " ") + ")"})
	}
	return packResults(res, resT)
}

// linkFuncValue is called when a /repo function is used as a value: it ties apply(fn_F, args)
// to the pure function symbol of F, instantiating F's contract for symbolic arguments.
func (fr *Frame) linkFuncValue(f *ssa.Function) {
	vc := fr.vc
	key := "funcval:" + FuncKey(f)
	if vc.wf[key] {
		return
	}
	vc.wf[key] = true
	id := vc.funcID(f)
	vc.fact(fmt.Sprintf("(not (= %s %s))", id, vc.S.Zero(f.Signature))) // a declared function is not the nil function value
	vc.tagsFn = append(vc.tagsFn, id)
	for _, o := range vc.tagsFn[:len(vc.tagsFn)-1] {
		vc.fact(fmt.Sprintf("(not (= %s %s))", id, o))
	}
	sp := vc.W.SpecFor(f)
	if sp == nil || !sp.Pure || f.Signature.Recv() != nil || f.Signature.Results().Len() != 1 {
		return
	}
	sig := f.Signature
	name, as, _ := vc.dynName(sig)
	rsort := vc.S.Sort(sig.Results().At(0).Type())
	vc.declareFun(name, append([]string{"Int"}, as...), rsort)
	var decls, vars []string
	var args []Val
	for i := 0; i < sig.Params().Len(); i++ {
		v := fmt.Sprintf("?p%d", i)
		decls = append(decls, fmt.Sprintf("(%s %s)", v, as[i]))
		vars = append(vars, v)
		args = append(args, Val{T: sig.Params().At(i).Type(), Term: v})
	}
	pn := vc.pureName(f, args, 0)
	vc.declareFun(pn, as, rsort)
	app := "(" + pn + " " + strings.Join(vars, " ") + ")"
	dyn := "(" + name + " " + strings.Join(append([]string{id}, vars...), " ") + ")"
	// contract of F for arbitrary arguments
	env := &SpecEnv{vc: vc, st: NewState(), names: map[string]Val{}, bound: map[string]Val{}, pkg: calleePkg(f), owner: f}
	env.old = env.st
	for i, n := range calleeParamNames(f, sp) {
		if i < len(args) {
			env.bound[n] = args[i]
		}
	}
	env.results = []Val{{T: sig.Results().At(0).Type(), Term: app}}
	env.resultNames = resultNames(f, sp)
	body := []string{fmt.Sprintf("(= %s %s)", dyn, app)}
	for _, en := range sp.Ensures {
		if en.Local {
			continue // about the callee's own variables: not part of what callers may assume
		}
		body = append(body, env.compileBool(en.Expr))
	}
	vc.fact(fmt.Sprintf("(forall (%s) (! (and %s) :pattern (%s) :pattern (%s)))", strings.Join(decls, " "), strings.Join(body, " "), dyn, app))
}

// modelRegexMatch gives regex.Match(r, s) for a constant pattern its meaning: ok is membership;
// when ok, the map holds one entry per named group, bound by a decomposition of s along the
// pattern (see RegexCaptures). regex.Match itself (12 lines over FindStringSubmatch/SubexpNames)
// is trusted to implement exactly that (A9).
func (fr *Frame) modelRegexMatch(pattern string, s Val, resT types.Type, cond string, st *State) Val {
	vc := fr.vc
	vc.Assumed["A9: regex.Match(r, s) returns (r matches s, named groups of SOME decomposition of s along r); at call sites with a constant pattern; the 12-line body of regex.Match is verified separately against regexp.spec"] = true
	x := vc.term(st, s)
	re, err := RegexToSMT(pattern)
	if err != nil {
		vc.outside("regex translation of %q: %v", pattern, err)
		return fr.freshResult(resT)
	}
	ok := vc.define("match_ok", "Bool", fmt.Sprintf("(str.in_re %s %s)", x, re))
	tup := resT.(*types.Tuple)
	mt := tup.At(1).Type()
	ms := vc.S.Sort(mt)
	c, caps, order, err := RegexCaptures(pattern, x, func(p string) string { return vc.fresh(p, "String") })
	if err != nil {
		vc.warn("regex.Match: captures of %q not modelled: %v", pattern, err)
		return Val{T: resT, Tuple: []Val{{T: types.Typ[types.Bool], Term: ok}, {T: mt, Term: vc.fresh("match_groups", ms)}}}
	}
	vc.fact(implies(ok, c))
	dom := "((as const (Array String Bool)) false)"
	val := "((as const (Array String String)) \"\")"
	for _, n := range order {
		dom = fmt.Sprintf("(store %s %s true)", dom, strLit(n))
		val = fmt.Sprintf("(store %s %s %s)", val, strLit(n), caps[n])
	}
	m := vc.define("match_groups", ms, ite(ok, mkMap(ms, dom, val, "false"), vc.S.Zero(mt)))
	return Val{T: resT, Tuple: []Val{{T: types.Typ[types.Bool], Term: ok}, {T: mt, Term: m}}}
}
