package engine

import (
	"fmt"
	"go/token"
	"go/types"
	"strings"
)

// RegexUse records one membership test against a package-level regexp variable.
type RegexUse struct {
	Var, Pkg, PkgName string
	Arg, Match        string
}

// Obligation is one proof obligation: facts[:NFacts] ⊢ Cond ⇒ Goal.
type Obligation struct {
	Name   string   // stable name: <func>#<kind>:<label>
	Func   string   // function key the obligation belongs to
	Kind   string   // ensures, requires, inv-init, inv-preserved, safe:<k>, call-pre, lemma, order, ...
	Props  []string // property ids it serves
	Cond   string
	Goal   string
	NFacts int
	Pos    token.Position
	Note   string
	// Cover obligations are expected to be SAT (vacuity guards).
	Cover bool
	// Deep obligations are only decided in the thorough tier (and by `govc verify -deep`).
	Deep bool
	Group string
	unit  *VC
}

// VC accumulates declarations, facts and obligations for one verification unit
// (one function under contract, or one lemma).
type VC struct {
	W        *World
	resultOrigin map[string]string // pointer result term of a logged call -> index of its event (for evFrom)
	S        *Sorts
	Unit     string
	decls    []string
	declOf   map[string]bool
	facts    []string
	fgroup   []string // proof group of each fact ("" = visible to all)
	curGroup string
	Obls     []*Obligation
	n        int
	wf       map[string]bool
	// Outside records why the unit left the modelled subset (fail closed).
	Outside             []string
	Warn                []string
	Assumed             map[string]bool // assumed contracts / axioms used
	curPos              token.Position
	tags                []string
	tagsFn              []string
	effTags             []string
	Replay              *ReplayCtx
	ghostCells          map[string]*Cell
	traceCell, tlenCell *Cell      // ghost: the sequence of effectful calls made directly by the unit under verification
	RegexUses           []RegexUse // matches(x, regexVar) occurrences (for replaying language lemmas)
	pureTerm            map[string]string
	axioms              []string
}

func NewVC(w *World, unit string) *VC {
	return &VC{W: w, S: w.Sorts, Unit: unit, declOf: map[string]bool{}, wf: map[string]bool{}, Assumed: map[string]bool{}, pureTerm: map[string]string{}}
}

func (vc *VC) fresh(prefix, sort string) string {
	vc.n++
	name := fmt.Sprintf("%s!%d", sanitize(prefix), vc.n)
	vc.decls = append(vc.decls, fmt.Sprintf("(declare-const %s %s)", name, sort))
	return name
}

// declareConst declares a named constant once.
func (vc *VC) declareConst(name, sort string) string {
	if !vc.declOf[name] {
		vc.declOf[name] = true
		vc.decls = append(vc.decls, fmt.Sprintf("(declare-const %s %s)", name, sort))
	}
	return name
}

func (vc *VC) declareFun(name string, args []string, res string) string {
	if !vc.declOf[name] {
		vc.declOf[name] = true
		vc.decls = append(vc.decls, fmt.Sprintf("(declare-fun %s (%s) %s)", name, strings.Join(args, " "), res))
	}
	return name
}

func (vc *VC) rawDecl(key, decl string) {
	if !vc.declOf[key] {
		vc.declOf[key] = true
		vc.decls = append(vc.decls, decl)
	}
}

func (vc *VC) fact(f string) {
	if f == "true" || f == "" {
		return
	}
	vc.facts = append(vc.facts, f)
	vc.fgroup = append(vc.fgroup, vc.curGroup)
}

// define introduces a named abbreviation for term (keeps VCs small and models readable).
func (vc *VC) define(prefix, sort, term string) string {
	if isAtom(term) {
		return term
	}
	n := vc.fresh(prefix, sort)
	vc.fact(fmt.Sprintf("(= %s %s)", n, term))
	return n
}

func isAtom(t string) bool {
	return !strings.ContainsAny(t, " (") || (strings.HasPrefix(t, `"`) && strings.HasSuffix(t, `"`) && !strings.Contains(t[1:len(t)-1], `"`))
}

func (vc *VC) outside(format string, a ...any) {
	msg := fmt.Sprintf(format, a...)
	if vc.curPos.IsValid() {
		msg = fmt.Sprintf("%s (%s:%d)", msg, shortFile(vc.curPos.Filename), vc.curPos.Line)
	}
	for _, o := range vc.Outside {
		if o == msg {
			return
		}
	}
	vc.Outside = append(vc.Outside, msg)
}

func (vc *VC) warn(format string, a ...any) {
	vc.Warn = append(vc.Warn, fmt.Sprintf(format, a...))
}

func shortFile(f string) string {
	return strings.TrimPrefix(f, "/repo/")
}

func (vc *VC) oblige(fn, kind, label string, props []string, cond, goal string) *Obligation {
	if goal == "true" {
		return nil
	}
	name := fn + "#" + kind
	if label != "" {
		name += ":" + label
	}
	// make names unique but stable: append ordinal on collision
	base, k := name, 1
	for vc.hasObl(name) {
		k++
		name = fmt.Sprintf("%s~%d", base, k)
	}
	o := &Obligation{Name: name, Func: fn, Kind: kind, Props: props, Cond: cond, Goal: goal, NFacts: len(vc.facts), Pos: vc.curPos, unit: vc}
	vc.Obls = append(vc.Obls, o)
	return o
}

func (vc *VC) hasObl(name string) bool {
	for _, o := range vc.Obls {
		if o.Name == name {
			return true
		}
	}
	return false
}

// Query renders the SMT-LIB script whose unsatisfiability discharges o.
func (o *Obligation) Query(produceModels bool) string {
	vc := o.unit
	var b strings.Builder
	for _, d := range vc.S.Decls() {
		b.WriteString(d)
		b.WriteByte('\n')
	}
	for _, d := range vc.W.GlobalDecls {
		b.WriteString(d)
		b.WriteByte('\n')
	}
	for _, d := range vc.decls {
		b.WriteString(d)
		b.WriteByte('\n')
	}
	for _, f := range vc.axioms {
		b.WriteString("(assert ")
		b.WriteString(f)
		b.WriteString(")\n")
	}
	for i, f := range vc.facts[:o.NFacts] {
		if g := vc.fgroup[i]; g != "" && g != o.Group {
			continue
		}
		b.WriteString("(assert ")
		b.WriteString(f)
		b.WriteString(")\n")
	}
	if o.Cover {
		b.WriteString("(assert " + o.Cond + ")\n")
	} else {
		b.WriteString("(assert (not (=> " + o.Cond + " " + o.Goal + ")))\n")
	}
	b.WriteString("(check-sat)\n")
	return b.String()
}

// ---------------------------------------------------------------- small term helpers

func and(ts ...string) string {
	var out []string
	for _, t := range ts {
		if t == "true" || t == "" {
			continue
		}
		if t == "false" {
			return "false"
		}
		out = append(out, t)
	}
	switch len(out) {
	case 0:
		return "true"
	case 1:
		return out[0]
	}
	return "(and " + strings.Join(out, " ") + ")"
}

func or(ts ...string) string {
	var out []string
	for _, t := range ts {
		if t == "false" || t == "" {
			continue
		}
		if t == "true" {
			return "true"
		}
		out = append(out, t)
	}
	switch len(out) {
	case 0:
		return "false"
	case 1:
		return out[0]
	}
	return "(or " + strings.Join(out, " ") + ")"
}

func not(t string) string {
	switch t {
	case "true":
		return "false"
	case "false":
		return "true"
	}
	if strings.HasPrefix(t, "(not ") && strings.HasSuffix(t, ")") && balanced(t[5:len(t)-1]) {
		return t[5 : len(t)-1]
	}
	return "(not " + t + ")"
}

func balanced(s string) bool {
	d := 0
	inStr := false
	for i := 0; i < len(s); i++ {
		c := s[i]
		if c == '"' {
			inStr = !inStr
		}
		if inStr {
			continue
		}
		if c == '(' {
			d++
		} else if c == ')' {
			d--
			if d < 0 {
				return false
			}
		}
	}
	return d == 0
}

func implies(a, b string) string {
	if a == "true" {
		return b
	}
	if b == "true" || a == "false" {
		return "true"
	}
	return "(=> " + a + " " + b + ")"
}

func ite(c, a, b string) string {
	if c == "true" {
		return a
	}
	if c == "false" {
		return b
	}
	if a == b {
		return a
	}
	return "(ite " + c + " " + a + " " + b + ")"
}

func eq(a, b string) string {
	if a == b {
		return "true"
	}
	return "(= " + a + " " + b + ")"
}

func intLit(n int64) string {
	if n < 0 {
		return fmt.Sprintf("(- %d)", -n)
	}
	return fmt.Sprintf("%d", n)
}

// strLit renders a Go string (a byte sequence, A2) as an SMT-LIB string literal.
func strLit(s string) string {
	var b strings.Builder
	b.WriteByte('"')
	for i := 0; i < len(s); i++ {
		c := s[i]
		switch {
		case c == '"':
			b.WriteString(`""`)
		case c == '\\':
			b.WriteString(`\u{5c}`)
		case c >= 0x20 && c < 0x7f:
			b.WriteByte(c)
		default:
			fmt.Fprintf(&b, `\u{%x}`, c)
		}
	}
	b.WriteByte('"')
	return b.String()
}

// ---------------------------------------------------------------- slices / maps term helpers

func (vc *VC) sliceLen(sliceSort, t string) string {
	l := fmt.Sprintf("(len_%s %s)", sliceSort, t)
	key := "len:" + l
	if !vc.wf[key] && !strings.Contains(t, "?") { // '?' marks bound variables
		vc.wf[key] = true
		vc.fact(fmt.Sprintf("(and (>= %s 0) (<= %s 4611686018427387904))", l, l))
		vc.fact(fmt.Sprintf("(=> (nil_%s %s) (= %s 0))", sliceSort, t, l))
	}
	return l
}

func sliceArr(sliceSort, t string) string { return fmt.Sprintf("(arr_%s %s)", sliceSort, t) }
func sliceNil(sliceSort, t string) string { return fmt.Sprintf("(nil_%s %s)", sliceSort, t) }
func sliceAt(sliceSort, t, i string) string {
	return fmt.Sprintf("(select (arr_%s %s) %s)", sliceSort, t, i)
}
func mkSlice(sliceSort, arr, ln, isnil string) string {
	return fmt.Sprintf("(mk_%s %s %s %s)", sliceSort, arr, ln, isnil)
}
func mapDom(mapSort, t string) string { return fmt.Sprintf("(dom_%s %s)", mapSort, t) }
func mapVal(mapSort, t string) string { return fmt.Sprintf("(val_%s %s)", mapSort, t) }
func mapNil(mapSort, t string) string { return fmt.Sprintf("(nil_%s %s)", mapSort, t) }
func mapHas(mapSort, t, k string) string {
	return fmt.Sprintf("(select (dom_%s %s) %s)", mapSort, t, k)
}
func mapGet(mapSort, t, k string) string {
	return fmt.Sprintf("(select (val_%s %s) %s)", mapSort, t, k)
}
func mkMap(mapSort, dom, val, isnil string) string {
	return fmt.Sprintf("(mk_%s %s %s %s)", mapSort, dom, val, isnil)
}

// mapCard returns the term for len(m) with on-demand axioms.
func (vc *VC) mapCard(mapSort, keySort, t string) string {
	fn := "card_" + keySort
	vc.declareFun(fn, []string{fmt.Sprintf("(Array %s Bool)", keySort)}, "Int")
	c := fmt.Sprintf("(%s (dom_%s %s))", fn, mapSort, t)
	key := "card:" + c
	if !vc.wf[key] && !strings.Contains(t, "?") {
		vc.wf[key] = true
		// len(m) >= 0; len(m) > 0 iff some key is present (one direction universally quantified over keys,
		// the other through a witness function: no quantifier alternation)
		wit := "cardwit_" + keySort
		vc.declareFun(wit, []string{fmt.Sprintf("(Array %s Bool)", keySort)}, keySort)
		dom := fmt.Sprintf("(dom_%s %s)", mapSort, t)
		vc.fact(fmt.Sprintf("(>= %s 0)", c))
		vc.fact(fmt.Sprintf("(forall ((?k %s)) (! (=> (select %s ?k) (>= %s 1)) :pattern ((select %s ?k))))", keySort, dom, c, dom))
		vc.fact(fmt.Sprintf("(=> (>= %s 1) (select %s (%s %s)))", c, dom, wit, dom))
	}
	return c
}

func elemType(t types.Type) types.Type {
	switch u := t.Underlying().(type) {
	case *types.Slice:
		return u.Elem()
	case *types.Array:
		return u.Elem()
	case *types.Pointer:
		return u.Elem()
	case *types.Map:
		return u.Elem()
	}
	return nil
}

// traceCells returns the ghost cells of the effect trace, creating them on first use.
func (vc *VC) traceCells(st *State) (*Cell, *Cell) {
	if vc.traceCell == nil {
		vc.n++
		vc.traceCell = &Cell{Name: "trace", Sort: "(Array Int Event)", id: vc.n}
		vc.n++
		vc.tlenCell = &Cell{Name: "tlen", Sort: "Int", id: vc.n}
	}
	if _, ok := st.cells[vc.traceCell]; !ok {
		st.cells[vc.traceCell] = vc.declareConst("trace0", "(Array Int Event)")
		st.cells[vc.tlenCell] = vc.declareConst("tlen0", "Int")
		vc.fact("(>= tlen0 0)")
	}
	return vc.traceCell, vc.tlenCell
}

// effectTag is the constant identifying an effectful operation in trace events.
func (vc *VC) effectTag(key string) string {
	name := "eff_" + sanitize(key)
	if !vc.declOf[name] {
		vc.declareConst(name, "Int")
		vc.effTags = append(vc.effTags, name)
		for _, o := range vc.effTags[:len(vc.effTags)-1] {
			vc.fact(fmt.Sprintf("(not (= %s %s))", name, o))
		}
	}
	return name
}

// logEffect appends one event to the trace.
func (vc *VC) logEffect(st *State, key string, recv string, strs []string, err string, payload string, ptr string, b1 string, from string, i1 string) string {
	tc, lc := vc.traceCells(st)
	s1, s2, s3 := "\"\"", "\"\"", "\"\""
	if len(strs) > 0 {
		s1 = strs[0]
	}
	if len(strs) > 1 {
		s2 = strs[1]
	}
	if len(strs) > 2 {
		s3 = strs[2]
	}
	if recv == "" {
		recv = "inil"
	}
	if err == "" {
		err = "enil"
	}
	if payload == "" {
		payload = "0"
	}
	if ptr == "" {
		ptr = "0"
	}
	if b1 == "" {
		b1 = "false"
	}
	if from == "" {
		from = "(- 1)"
	}
	if i1 == "" {
		i1 = "0"
	}
	ev := fmt.Sprintf("(mk_ev %s %s %s %s %s %s %s %s %s %s %s)", vc.effectTag(key), recv, s1, s2, s3, err, payload, ptr, b1, from, i1)
	ln := st.cells[lc]
	st.cells[tc] = vc.define("trace", "(Array Int Event)", fmt.Sprintf("(store %s %s %s)", st.cells[tc], ln, ev))
	st.cells[lc] = vc.define("tlen", "Int", fmt.Sprintf("(+ %s 1)", ln))
	return ln
}

// ghostCell returns the cell of a specification-only global variable, initialised to an arbitrary value in st.
func (vc *VC) ghostCell(st *State, name, sort string) *Cell {
	if vc.ghostCells == nil {
		vc.ghostCells = map[string]*Cell{}
	}
	c, ok := vc.ghostCells[name]
	if !ok {
		vc.n++
		c = &Cell{Name: "ghost_" + name, Sort: sort, id: vc.n}
		vc.ghostCells[name] = c
	}
	if _, ok := st.cells[c]; !ok {
		st.cells[c] = vc.declareConst("ghost0_"+sanitize(name), sort)
	}
	return c
}

// elemsOf is the set of elements of a []string term. Global axioms tie it to positions:
// every xs[i] (0 <= i < len) is a member, and every member has a witness position.
func (vc *VC) elemsOf(t string) string {
	if !vc.declOf["elems_String"] {
		vc.declareFun("elems_String", []string{"Slice_String"}, "(Array String Bool)")
		vc.declareFun("elemidx_String", []string{"Slice_String", "String"}, "Int")
		vc.axioms = append(vc.axioms,
			"(forall ((?xs Slice_String) (?i Int)) (! (=> (and (<= 0 ?i) (< ?i (len_Slice_String ?xs))) (select (elems_String ?xs) (select (arr_Slice_String ?xs) ?i))) :pattern ((select (arr_Slice_String ?xs) ?i) (elems_String ?xs))))",
			"(forall ((?xs Slice_String) (?x String)) (! (=> (select (elems_String ?xs) ?x) (and (<= 0 (elemidx_String ?xs ?x)) (< (elemidx_String ?xs ?x) (len_Slice_String ?xs)) (= (select (arr_Slice_String ?xs) (elemidx_String ?xs ?x)) ?x))) :pattern ((select (elems_String ?xs) ?x))))",
			"(forall ((?xs Slice_String)) (! (=> (= (len_Slice_String ?xs) 0) (= (elems_String ?xs) ((as const (Array String Bool)) false))) :pattern ((elems_String ?xs))))",
		)
	}
	return fmt.Sprintf("(elems_String %s)", t)
}

// setUnion is point-wise disjunction of two string sets.
func (vc *VC) setUnion(a, b string) string {
	if !vc.declOf["setunion_String"] {
		vc.declareFun("setunion_String", []string{"(Array String Bool)", "(Array String Bool)"}, "(Array String Bool)")
		vc.axioms = append(vc.axioms,
			"(forall ((?a (Array String Bool)) (?b (Array String Bool)) (?x String)) (! (= (select (setunion_String ?a ?b) ?x) (or (select ?a ?x) (select ?b ?x))) :pattern ((select (setunion_String ?a ?b) ?x))))",
			"(forall ((?a (Array String Bool))) (! (= (setunion_String ?a ((as const (Array String Bool)) false)) ?a) :pattern ((setunion_String ?a ((as const (Array String Bool)) false)))))",
		)
	}
	return fmt.Sprintf("(setunion_String %s %s)", a, b)
}

// evBox returns the names of the injective boxing of values of a sort into event payloads (box, unbox), declaring
// them with unbox(box(x)) = x on first use.
func (vc *VC) evBox(srt string) (string, string) {
	box, unbox := "evbox_"+srt, "evunbox_"+srt
	if !vc.declOf["evbox:"+srt] {
		vc.declOf["evbox:"+srt] = true
		vc.declareFun(box, []string{srt}, "Int")
		vc.declareFun(unbox, []string{"Int"}, srt)
		vc.axioms = append(vc.axioms, fmt.Sprintf("(forall ((?x %s)) (! (= (%s (%s ?x)) ?x) :pattern ((%s ?x))))", srt, unbox, box, box))
	}
	return box, unbox
}
