package engine

import (
	"bytes"
	"context"
	"fmt"
	"os"
	"os/exec"
	"path/filepath"
	"strings"
	"sync"
	"time"
)

// Result of discharging one obligation.
type Result struct {
	Obl        *Obligation
	Status     string // discharged | failed | undecided | cover-ok | cover-vacuous
	By         string // solver that decided
	Answers    map[string]string
	Times      map[string]float64
	Wall       float64
	QueryBytes int
	QueryFile  string
	Model      string
}

type Solver struct {
	Name string
	Args func(file string, timeout int, seed int) []string
}

var Solvers = []Solver{
	{"z3-new", func(f string, t int, seed int) []string {
		a := []string{"z3-new", fmt.Sprintf("-T:%d", t)}
		if seed != 0 {
			a = append(a, fmt.Sprintf("smt.random_seed=%d", seed), fmt.Sprintf("sat.random_seed=%d", seed))
		}
		return append(a, f)
	}},
	{"z3", func(f string, t int, seed int) []string {
		a := []string{"z3", fmt.Sprintf("-T:%d", t)}
		if seed != 0 {
			a = append(a, fmt.Sprintf("smt.random_seed=%d", seed), fmt.Sprintf("sat.random_seed=%d", seed))
		}
		return append(a, f)
	}},
	{"cvc5", func(f string, t int, seed int) []string {
		a := []string{"cvc5", fmt.Sprintf("--tlimit=%d", t*1000), "--strings-exp", "--full-saturate-quant"}
		if seed != 0 {
			a = append(a, fmt.Sprintf("--seed=%d", seed))
		}
		return append(a, f)
	}},
}

type SolveOpts struct {
	Timeout  int // seconds per solver
	Dir      string
	WaitAll  bool // wait for every solver (disagreement detection)
	Parallel int
	Seed     int
	Keep     bool
	NoSplit  bool // do not try the case split over merged control-flow paths on undecided obligations
}

func runSolver(ctx context.Context, s Solver, file string, timeout int, seed int) (string, float64, string) {
	args := s.Args(file, timeout, seed)
	start := time.Now()
	cctx, cancel := context.WithTimeout(ctx, time.Duration(timeout+2)*time.Second)
	defer cancel()
	cmd := exec.CommandContext(cctx, args[0], args[1:]...)
	var out bytes.Buffer
	cmd.Stdout = &out
	cmd.Stderr = &out
	_ = cmd.Run()
	el := time.Since(start).Seconds()
	first := strings.TrimSpace(strings.SplitN(out.String(), "\n", 2)[0])
	switch first {
	case "sat", "unsat", "unknown", "timeout":
		return first, el, out.String()
	}
	if ctx.Err() != nil || cctx.Err() != nil {
		return "timeout", el, out.String()
	}
	if strings.Contains(out.String(), "timeout") {
		return "timeout", el, out.String()
	}
	return "error: " + first, el, out.String()
}

// Discharge decides one obligation with the solver portfolio.
func Discharge(o *Obligation, opts SolveOpts) *Result {
	q := "(set-option :produce-models true)\n(set-logic ALL)\n" + o.Query(false)
	file := filepath.Join(opts.Dir, sanitize(o.Name)+".smt2")
	if len(file) > 200 {
		file = filepath.Join(opts.Dir, fmt.Sprintf("%s_%x.smt2", sanitize(o.Name)[:80], hashStr(o.Name)))
	}
	_ = os.WriteFile(file, []byte(q), 0644)
	res := &Result{Obl: o, Answers: map[string]string{}, Times: map[string]float64{}, QueryBytes: len(q), QueryFile: file}
	start := time.Now()
	ctx, cancel := context.WithCancel(context.Background())
	defer cancel()
	type ans struct {
		s   string
		a   string
		t   float64
		out string
	}
	ch := make(chan ans, len(Solvers))
	timeout := opts.Timeout
	if o.Cover && timeout > 3 {
		timeout = 3
	}
	for _, s := range Solvers {
		go func(s Solver) {
			a, t, out := runSolver(ctx, s, file, timeout, opts.Seed)
			ch <- ans{s.Name, a, t, out}
		}(s)
	}
	// an obligation guarded by a merged block condition is, in parallel, decided path by path (see splitByPath);
	// the split starts only when the plain query has not been answered within 0.7 seconds
	type splitOut struct{ status, by string }
	splitCh := make(chan splitOut, 1)
	splitRunning := false
	if !o.Cover && !opts.NoSplit && splittable(o, q) {
		splitRunning = true
		go func() {
			select {
			case <-time.After(700 * time.Millisecond):
				st, by := splitByPath(ctx, o, q, file, opts, res)
				splitCh <- splitOut{st, by}
			case <-ctx.Done():
				splitCh <- splitOut{}
			}
		}()
	}
	var sat, unsat string
	var split splitOut
	pending := len(Solvers)
	for pending > 0 || splitRunning {
		select {
		case a := <-ch:
			pending--
			resMu.Lock()
			res.Answers[a.s] = a.a
			res.Times[a.s] = a.t
			resMu.Unlock()
			if a.a == "sat" && sat == "" {
				sat = a.s
			}
			if a.a == "unsat" && unsat == "" {
				unsat = a.s
			}
		case so := <-splitCh:
			splitRunning = false
			split = so
		}
		if !opts.WaitAll && (sat != "" || unsat != "" || split.status != "") {
			cancel()
			break
		}
	}
	if sat == "" && unsat == "" && split.status != "" {
		// decided by the path split
		res.Wall = time.Since(start).Seconds()
		res.Status, res.By = split.status, split.by
		if !opts.Keep && res.Status == "discharged" {
			_ = os.Remove(file)
		}
		return res
	}
	res.Wall = time.Since(start).Seconds()
	switch {
	case o.Cover:
		switch {
		case sat != "" && unsat == "":
			res.Status, res.By = "cover-ok", sat
		case unsat != "" && sat == "":
			res.Status, res.By = "cover-vacuous", unsat
		case sat != "" && unsat != "":
			res.Status, res.By = "undecided", "disagreement"
		default:
			// no solver could derive false from the hypotheses within the budget: not shown vacuous
			res.Status = "cover-ok"
			res.By = "not-refuted"
		}
	case unsat != "" && sat == "":
		res.Status, res.By = "discharged", unsat
	case sat != "":
		res.Status, res.By = "failed", sat
		if unsat != "" {
			res.Status, res.By = "undecided", "disagreement:"+sat+"/"+unsat
		}
	default:
		res.Status = "undecided"
	}
	if !opts.Keep && (res.Status == "discharged" || res.Status == "cover-ok") {
		_ = os.Remove(file)
	}
	return res
}

func hashStr(s string) uint32 {
	var h uint32 = 2166136261
	for i := 0; i < len(s); i++ {
		h ^= uint32(s[i])
		h *= 16777619
	}
	return h
}

// DischargeAll runs obligations in parallel.
func DischargeAll(obls []*Obligation, opts SolveOpts) []*Result {
	if opts.Parallel <= 0 {
		opts.Parallel = 5
	}
	out := make([]*Result, len(obls))
	var wg sync.WaitGroup
	sem := make(chan struct{}, opts.Parallel)
	for i, o := range obls {
		wg.Add(1)
		sem <- struct{}{}
		go func(i int, o *Obligation) {
			defer wg.Done()
			defer func() { <-sem }()
			out[i] = Discharge(o, opts)
		}(i, o)
	}
	wg.Wait()
	return out
}

// splittable: the obligation's guard is a merged block condition bc = (or c1 .. cn) defined among the facts.
func splittable(o *Obligation, q string) bool {
	return len(splitParts(o, q)) >= 2
}

func splitParts(o *Obligation, q string) []string {
	// the disjuncts of a block condition defined among the facts as (= bc!N (or c1 .. cn)); nil if it is not one
	defOf := func(cond string) []string {
		if !strings.HasPrefix(cond, "bc!") || strings.ContainsAny(cond, " ()") {
			return nil
		}
		def := "(assert (= " + cond + " (or "
		i := strings.Index(q, def)
		if i < 0 {
			return nil
		}
		rest := q[i+len(def):]
		if nl := strings.IndexByte(rest, '\n'); nl >= 0 {
			rest = rest[:nl]
		}
		return topLevelTerms(rest)
	}
	cond := strings.TrimSpace(o.Cond)
	var parts []string
	if strings.HasPrefix(cond, "(or ") {
		// the guard itself is a disjunction of paths (a merge at the function's exit): its disjuncts, each block
		// condition among them expanded one level
		for _, c := range topLevelTerms(cond[len("(or "):]) {
			if sub := defOf(c); len(sub) >= 2 {
				parts = append(parts, sub...)
			} else {
				parts = append(parts, c)
			}
		}
	} else {
		parts = defOf(cond)
	}
	if len(parts) < 2 || len(parts) > 16 {
		return nil
	}
	return parts
}

var resMu sync.Mutex

// splitByPath: an obligation whose guard is a merged block condition bc = (or c1 .. cn) is decided
// path by path: facts /\ not goal /\ ci for every i. Sound and complete w.r.t. the original query because
// bc <=> (or ci) is itself one of the facts and the negated goal implies bc. All parts unsat => discharged;
// some part sat => that model satisfies the original query too => failed (model kept for replay).
func splitByPath(ctx context.Context, o *Obligation, q, file string, opts SolveOpts, res *Result) (string, string) {
	parts := splitParts(o, q)
	if parts == nil {
		return "", ""
	}
	type sub struct {
		ans, by string
		t       float64
	}
	subs := make([]sub, len(parts))
	var wg sync.WaitGroup
	base := strings.TrimSuffix(strings.TrimSpace(q), "(check-sat)")
	satFile := ""
	for k, c := range parts {
		wg.Add(1)
		go func(k int, c string) {
			defer wg.Done()
			f := fmt.Sprintf("%s.split%d.smt2", strings.TrimSuffix(file, ".smt2"), k)
			_ = os.WriteFile(f, []byte(base+"(assert "+c+")\n(check-sat)\n"), 0644)
			cctx, cancel := context.WithCancel(ctx)
			defer cancel()
			type ans struct {
				s, a string
				t    float64
			}
			ch := make(chan ans, len(Solvers))
			for _, s := range Solvers {
				go func(s Solver) {
					a, t, _ := runSolver(cctx, s, f, opts.Timeout, opts.Seed)
					ch <- ans{s.Name, a, t}
				}(s)
			}
			for j := 0; j < len(Solvers); j++ {
				a := <-ch
				if a.a == "sat" || a.a == "unsat" {
					subs[k] = sub{a.a, a.s, a.t}
					cancel()
					break
				}
			}
			if subs[k].ans == "sat" {
				resMu.Lock()
				satFile = f
				resMu.Unlock()
			} else if !opts.Keep || subs[k].ans == "" {
				_ = os.Remove(f)
			}
		}(k, c)
	}
	wg.Wait()
	all := true
	resMu.Lock()
	defer resMu.Unlock()
	for k, sb := range subs {
		res.Answers[fmt.Sprintf("path%d", k)] = sb.ans + ":" + sb.by
		if sb.ans == "" {
			res.Answers[fmt.Sprintf("path%d", k)] = "timeout"
		}
		if sb.ans != "unsat" {
			all = false
		}
	}
	for _, sb := range subs {
		if sb.ans == "sat" {
			res.QueryFile = satFile
			return "failed", "path-split:" + sb.by
		}
	}
	if all {
		return "discharged", fmt.Sprintf("path-split/%d:%s", len(parts), subs[0].by)
	}
	return "", ""
}

// topLevelTerms splits "t1 t2 ... tn)))" into its first-level s-expressions, stopping at the closing parenthesis
// of the enclosing term. String literals ("" escapes a quote) are respected.
func topLevelTerms(s string) []string {
	var out []string
	depth, start, inStr := 0, -1, false
	for i := 0; i < len(s); i++ {
		c := s[i]
		if inStr {
			if c == '"' {
				inStr = false
			}
			continue
		}
		switch {
		case c == '"':
			inStr = true
			if start < 0 {
				start = i
			}
		case c == '(':
			if start < 0 {
				start = i
			}
			depth++
		case c == ')':
			if depth == 0 {
				if start >= 0 {
					out = append(out, s[start:i])
				}
				return out
			}
			depth--
			if depth == 0 {
				out = append(out, s[start:i+1])
				start = -1
			}
		case c == ' ':
			if depth == 0 && start >= 0 {
				out = append(out, s[start:i])
				start = -1
			}
		default:
			if start < 0 {
				start = i
			}
		}
	}
	return out
}
