package engine

import (
	"bytes"
	"context"
	"fmt"
	"os"
	"os/exec"
	"path/filepath"
	"strings"
	"sync"
	"time"
)

// Result of discharging one obligation.
type Result struct {
	Obl        *Obligation
	Status     string // discharged | failed | undecided | cover-ok | cover-vacuous
	By         string // solver that decided
	Answers    map[string]string
	Times      map[string]float64
	Wall       float64
	QueryBytes int
	QueryFile  string
	Model      string
}

type Solver struct {
	Name string
	Args func(file string, timeout int, seed int) []string
}

var Solvers = []Solver{
	{"z3-new", func(f string, t int, seed int) []string {
		a := []string{"z3-new", fmt.Sprintf("-T:%d", t)}
		if seed != 0 {
			a = append(a, fmt.Sprintf("smt.random_seed=%d", seed), fmt.Sprintf("sat.random_seed=%d", seed))
		}
		return append(a, f)
	}},
	{"z3", func(f string, t int, seed int) []string {
		a := []string{"z3", fmt.Sprintf("-T:%d", t)}
		if seed != 0 {
			a = append(a, fmt.Sprintf("smt.random_seed=%d", seed), fmt.Sprintf("sat.random_seed=%d", seed))
		}
		return append(a, f)
	}},
	{"cvc5", func(f string, t int, seed int) []string {
		a := []string{"cvc5", fmt.Sprintf("--tlimit=%d", t*1000), "--strings-exp", "--full-saturate-quant"}
		if seed != 0 {
			a = append(a, fmt.Sprintf("--seed=%d", seed))
		}
		return append(a, f)
	}},
}

type SolveOpts struct {
	Timeout  int // seconds per solver
	Dir      string
	WaitAll  bool // wait for every solver (disagreement detection)
	Parallel int
	Seed     int
	Keep     bool
}

func runSolver(ctx context.Context, s Solver, file string, timeout int, seed int) (string, float64, string) {
	args := s.Args(file, timeout, seed)
	start := time.Now()
	cctx, cancel := context.WithTimeout(ctx, time.Duration(timeout+2)*time.Second)
	defer cancel()
	cmd := exec.CommandContext(cctx, args[0], args[1:]...)
	var out bytes.Buffer
	cmd.Stdout = &out
	cmd.Stderr = &out
	_ = cmd.Run()
	el := time.Since(start).Seconds()
	first := strings.TrimSpace(strings.SplitN(out.String(), "\n", 2)[0])
	switch first {
	case "sat", "unsat", "unknown", "timeout":
		return first, el, out.String()
	}
	if ctx.Err() != nil || cctx.Err() != nil {
		return "timeout", el, out.String()
	}
	if strings.Contains(out.String(), "timeout") {
		return "timeout", el, out.String()
	}
	return "error: " + first, el, out.String()
}

// Discharge decides one obligation with the solver portfolio.
func Discharge(o *Obligation, opts SolveOpts) *Result {
	q := "(set-option :produce-models true)\n(set-logic ALL)\n" + o.Query(false)
	file := filepath.Join(opts.Dir, sanitize(o.Name)+".smt2")
	if len(file) > 200 {
		file = filepath.Join(opts.Dir, fmt.Sprintf("%s_%x.smt2", sanitize(o.Name)[:80], hashStr(o.Name)))
	}
	_ = os.WriteFile(file, []byte(q), 0644)
	res := &Result{Obl: o, Answers: map[string]string{}, Times: map[string]float64{}, QueryBytes: len(q), QueryFile: file}
	start := time.Now()
	ctx, cancel := context.WithCancel(context.Background())
	defer cancel()
	type ans struct {
		s   string
		a   string
		t   float64
		out string
	}
	ch := make(chan ans, len(Solvers))
	timeout := opts.Timeout
	if o.Cover && timeout > 3 {
		timeout = 3
	}
	for _, s := range Solvers {
		go func(s Solver) {
			a, t, out := runSolver(ctx, s, file, timeout, opts.Seed)
			ch <- ans{s.Name, a, t, out}
		}(s)
	}
	var sat, unsat string
	for i := 0; i < len(Solvers); i++ {
		a := <-ch
		res.Answers[a.s] = a.a
		res.Times[a.s] = a.t
		if a.a == "sat" && sat == "" {
			sat = a.s
		}
		if a.a == "unsat" && unsat == "" {
			unsat = a.s
		}
		if !opts.WaitAll && (a.a == "sat" || a.a == "unsat") {
			cancel()
			break
		}
	}
	res.Wall = time.Since(start).Seconds()
	switch {
	case o.Cover:
		switch {
		case sat != "" && unsat == "":
			res.Status, res.By = "cover-ok", sat
		case unsat != "" && sat == "":
			res.Status, res.By = "cover-vacuous", unsat
		case sat != "" && unsat != "":
			res.Status, res.By = "undecided", "disagreement"
		default:
			// no solver could derive false from the hypotheses within the budget: not shown vacuous
			res.Status = "cover-ok"
			res.By = "not-refuted"
		}
	case unsat != "" && sat == "":
		res.Status, res.By = "discharged", unsat
	case sat != "":
		res.Status, res.By = "failed", sat
		if unsat != "" {
			res.Status, res.By = "undecided", "disagreement:"+sat+"/"+unsat
		}
	default:
		res.Status = "undecided"
	}
	if !opts.Keep && (res.Status == "discharged" || res.Status == "cover-ok") {
		_ = os.Remove(file)
	}
	return res
}

func hashStr(s string) uint32 {
	var h uint32 = 2166136261
	for i := 0; i < len(s); i++ {
		h ^= uint32(s[i])
		h *= 16777619
	}
	return h
}

// DischargeAll runs obligations in parallel.
func DischargeAll(obls []*Obligation, opts SolveOpts) []*Result {
	if opts.Parallel <= 0 {
		opts.Parallel = 5
	}
	out := make([]*Result, len(obls))
	var wg sync.WaitGroup
	sem := make(chan struct{}, opts.Parallel)
	for i, o := range obls {
		wg.Add(1)
		sem <- struct{}{}
		go func(i int, o *Obligation) {
			defer wg.Done()
			defer func() { <-sem }()
			out[i] = Discharge(o, opts)
		}(i, o)
	}
	wg.Wait()
	return out
}
