package engine

import (
	"fmt"
	"go/types"
	"sort"
	"strings"
)

// Sorts maps Go types to monomorphic SMT sorts and collects the declarations.
//
// Encoding (DESIGN.md 2.3, as built):
//
//	bool -> Bool; all integer kinds -> Int (mathematical, A1); string -> String (A2)
//	float -> Int (opaque id); struct -> datatype; *T (as data) -> Opt_T = none | some(val)
//	[]T -> Slice_T = mk(arr: Array Int T, len: Int, nil: Bool)   (value semantics, A3/A4)
//	map[K]V -> Map_K_V = mk(dom: Array K Bool, val: Array K V, nil: Bool)
//	any -> Any; error -> Err; other interfaces -> Iface; func -> Func (Int id)
//	type parameter T -> uninterpreted sort TP_T
type Sorts struct {
	decls        []string          // in dependency order
	done         map[string]bool   // sort name -> declared
	byType       map[string]string // types.TypeString -> sort name
	structs      map[string]*types.Struct
	Extra        map[string]*DT      // spec-level datatypes (sort decls)
	inProgress   map[string]bool     // struct sorts being declared: references back to them are opaque (Int)
	hits         int                 // back-references into recursive types met so far
	fieldSorts   map[string][]string // struct sort -> field sorts as declared
	recursiveHit bool
}

type DT struct {
	Name  string
	Ctors []DTCtor
}
type DTCtor struct {
	Name   string
	Fields []DTField
}
type DTField struct {
	Name string
	Sort string
}

func NewSorts() *Sorts {
	s := &Sorts{done: map[string]bool{}, byType: map[string]string{}, structs: map[string]*types.Struct{}, Extra: map[string]*DT{}}
	s.decls = append(s.decls,
		"(declare-datatypes ((Any 0)) (((anil) (astr (astr_v String)) (abool (abool_v Bool)) (aint (aint_v Int)) (aprim (aprim_kind Int) (aprim_id Int)) (alist (alist_id Int)) (adict (adict_id Int)) (aother (aother_tag Int) (aother_id Int)))))",
		"(declare-datatypes ((Err 0)) (((enil) (emk (emk_id Int)))))",
		"(declare-datatypes ((Iface 0)) (((inil) (iobj (iobj_tag Int) (iobj_id Int)))))",
		"(declare-datatypes ((Unit 0)) (((unit))))",
		"(declare-datatypes ((Event 0)) (((mk_ev (ev_tag Int) (ev_recv Iface) (ev_s1 String) (ev_s2 String) (ev_s3 String) (ev_err Err) (ev_arg Int) (ev_ptr Int) (ev_b1 Bool) (ev_from Int) (ev_i1 Int)))))",
	)
	s.done["Any"], s.done["Err"], s.done["Iface"], s.done["Unit"] = true, true, true, true
	return s
}

func sanitize(s string) string {
	var b strings.Builder
	for _, r := range s {
		switch {
		case r >= 'a' && r <= 'z', r >= 'A' && r <= 'Z', r >= '0' && r <= '9', r == '_':
			b.WriteRune(r)
		case r == '.' || r == '/':
			b.WriteRune('_')
		case r == '*':
			b.WriteString("P")
		case r == '[' || r == ']':
			b.WriteString("L")
		default:
			b.WriteString("_")
		}
	}
	return b.String()
}

func shortPkg(p *types.Package) string {
	if p == nil {
		return ""
	}
	path := p.Path()
	if i := strings.LastIndex(path, "/"); i >= 0 {
		path = path[i+1:]
	}
	return sanitize(path)
}

func isErrorType(t types.Type) bool {
	n, ok := t.(*types.Named)
	return ok && n.Obj().Pkg() == nil && n.Obj().Name() == "error"
}

func isEmptyInterface(t types.Type) bool {
	i, ok := t.Underlying().(*types.Interface)
	return ok && i.NumMethods() == 0 && !isTypeParam(t)
}

func isTypeParam(t types.Type) bool {
	_, ok := t.(*types.TypeParam)
	return ok
}

// Sort returns the SMT sort name for a Go type, declaring it if needed.
func (s *Sorts) Sort(t types.Type) string {
	t = types.Unalias(t)
	key := types.TypeString(t, nil)
	if n, ok := s.byType[key]; ok {
		return n
	}
	before := len(s.inProgress)
	h0 := s.hits
	n := s.sort(t)
	if s.hits != h0 && before > 0 {
		// the result depends on a back-reference inside a recursive type (rendered as an opaque Int): do not cache,
		// the same Go type gets its real sort when it is asked for outside the recursion
		return n
	}
	s.byType[key] = n
	return n
}

func (s *Sorts) sort(t types.Type) string {
	if tp, ok := t.(*types.TypeParam); ok {
		if typeParamIsString(tp) {
			return "String"
		}
		n := "TP_" + sanitize(tp.Obj().Name())
		if !s.done[n] {
			s.done[n] = true
			s.decls = append(s.decls, fmt.Sprintf("(declare-sort %s 0)", n), fmt.Sprintf("(declare-const zero_%s %s)", n, n))
		}
		return n
	}
	if isErrorType(t) {
		return "Err"
	}
	if named, ok := t.(*types.Named); ok {
		if st, ok := named.Underlying().(*types.Struct); ok {
			name := shortPkg(named.Obj().Pkg()) + "_" + sanitize(named.Obj().Name())
			if s.inProgress[name] {
				s.recursiveHit = true
				s.hits++
				return "Int"
			}
			if targs := named.TypeArgs(); targs != nil && targs.Len() > 0 {
				for i := 0; i < targs.Len(); i++ {
					name += "_" + sanitize(s.Sort(targs.At(i)))
				}
			}
			s.declStruct(name, st)
			return name
		}
	}
	switch u := t.Underlying().(type) {
	case *types.Basic:
		switch {
		case u.Info()&types.IsBoolean != 0:
			return "Bool"
		case u.Info()&types.IsInteger != 0:
			return "Int"
		case u.Info()&types.IsString != 0:
			return "String"
		case u.Info()&types.IsFloat != 0:
			return "Int"
		case u.Kind() == types.UnsafePointer:
			return "Int"
		case u.Kind() == types.UntypedNil:
			return "Unit"
		}
		return "Int"
	case *types.Struct:
		name := "anon_" + sanitize(types.TypeString(u, nil))
		if len(name) > 60 {
			name = fmt.Sprintf("anon_%d", len(s.structs))
		}
		s.declStruct(name, u)
		return name
	case *types.Pointer:
		h0 := s.hits
		e := s.Sort(u.Elem())
		if e == "Int" && s.hits != h0 {
			return "Int"
		}
		n := "Opt_" + e
		if !s.done[n] {
			s.done[n] = true
			s.decls = append(s.decls, fmt.Sprintf("(declare-datatypes ((%s 0)) (((none_%s) (some_%s (val_%s %s)))))", n, e, e, e, e))
		}
		return n
	case *types.Slice:
		return s.sliceSort(s.Sort(u.Elem()))
	case *types.Array:
		return s.sliceSort(s.Sort(u.Elem()))
	case *types.Map:
		k, v := s.Sort(u.Key()), s.Sort(u.Elem())
		return s.mapSort(k, v)
	case *types.Interface:
		if u.NumMethods() == 0 {
			return "Any"
		}
		return "Iface"
	case *types.Signature:
		return "Int"
	case *types.Tuple:
		return "Unit"
	case *types.Chan:
		return "Int"
	}
	return "Int"
}

func (s *Sorts) sliceSort(e string) string {
	n := "Slice_" + e
	if !s.done[n] {
		s.done[n] = true
		s.decls = append(s.decls, fmt.Sprintf("(declare-datatypes ((%s 0)) (((mk_%s (arr_%s (Array Int %s)) (len_%s Int) (nil_%s Bool)))))", n, n, n, e, n, n))
	}
	return n
}

func (s *Sorts) mapSort(k, v string) string {
	n := "Map_" + k + "_" + v
	if !s.done[n] {
		s.done[n] = true
		s.decls = append(s.decls, fmt.Sprintf("(declare-datatypes ((%s 0)) (((mk_%s (dom_%s (Array %s Bool)) (val_%s (Array %s %s)) (nil_%s Bool)))))", n, n, n, k, n, k, v, n))
	}
	return n
}

func (s *Sorts) declStruct(name string, st *types.Struct) {
	if s.done[name] {
		return
	}
	s.done[name] = true
	if s.inProgress == nil {
		s.inProgress = map[string]bool{}
	}
	s.inProgress[name] = true
	defer delete(s.inProgress, name)
	if s.fieldSorts == nil {
		s.fieldSorts = map[string][]string{}
	}
	s.fieldSorts[name] = nil
	s.structs[name] = st
	var fields []string
	for i := 0; i < st.NumFields(); i++ {
		f := st.Field(i)
		fn := sanitize(f.Name())
		if f.Name() == "_" {
			fn = fmt.Sprintf("blank%d", i)
		}
		fsrt := s.Sort(f.Type())
		s.fieldSorts[name] = append(s.fieldSorts[name], fsrt)
		fields = append(fields, fmt.Sprintf("(%s_%s %s)", name, fn, fsrt))
	}
	if len(fields) == 0 {
		s.decls = append(s.decls, fmt.Sprintf("(declare-datatypes ((%s 0)) (((mk_%s))))", name, name))
		return
	}
	s.decls = append(s.decls, fmt.Sprintf("(declare-datatypes ((%s 0)) (((mk_%s %s))))", name, name, strings.Join(fields, " ")))
}

// DeclareDT declares a spec-level datatype.
func (s *Sorts) DeclareDT(dt *DT) {
	if s.done[dt.Name] {
		return
	}
	s.done[dt.Name] = true
	s.Extra[dt.Name] = dt
	if len(dt.Ctors) == 0 {
		s.decls = append(s.decls, fmt.Sprintf("(declare-sort %s 0)", dt.Name))
		return
	}
	var cs []string
	for _, c := range dt.Ctors {
		var fs []string
		for _, f := range c.Fields {
			fs = append(fs, fmt.Sprintf("(%s_%s %s)", c.Name, f.Name, f.Sort))
		}
		if len(fs) == 0 {
			cs = append(cs, "("+c.Name+")")
		} else {
			cs = append(cs, "("+c.Name+" "+strings.Join(fs, " ")+")")
		}
	}
	s.decls = append(s.decls, fmt.Sprintf("(declare-datatypes ((%s 0)) ((%s)))", dt.Name, strings.Join(cs, " ")))
}

func (s *Sorts) Decls() []string { return s.decls }

// Zero returns the zero value term of a Go type.
func (s *Sorts) Zero(t types.Type) string {
	t = types.Unalias(t)
	srt := s.Sort(t)
	return s.zeroOfSort(srt, t)
}

func (s *Sorts) zeroOfSort(srt string, t types.Type) string {
	switch srt {
	case "Bool":
		return "false"
	case "Int":
		return "0"
	case "String":
		return `""`
	case "Any":
		return "anil"
	case "Err":
		return "enil"
	case "Iface":
		return "inil"
	case "Unit":
		return "unit"
	}
	if strings.HasPrefix(srt, "TP_") {
		return "zero_" + srt // declared lazily by the emitter
	}
	if strings.HasPrefix(srt, "Opt_") {
		return "none_" + strings.TrimPrefix(srt, "Opt_")
	}
	if t != nil {
		switch u := t.Underlying().(type) {
		case *types.Slice:
			return s.NilSlice(s.Sort(u.Elem()), s.Zero(u.Elem()))
		case *types.Array:
			e := s.Sort(u.Elem())
			return fmt.Sprintf("(mk_Slice_%s %s %d false)", e, s.ConstArray("Int", e, s.Zero(u.Elem())), u.Len())
		case *types.Map:
			k, v := s.Sort(u.Key()), s.Sort(u.Elem())
			return fmt.Sprintf("(mk_%s ((as const (Array %s Bool)) false) %s true)", srt, k, s.ConstArray(k, v, s.Zero(u.Elem())))
		case *types.Struct:
			if u.NumFields() == 0 {
				return "mk_" + srt
			}
			var fs []string
			decl := s.fieldSorts[srt]
			for i := 0; i < u.NumFields(); i++ {
				if i < len(decl) && decl[i] != s.Sort(u.Field(i).Type()) {
					// a field of a recursive type that was declared with an opaque sort (back-reference)
					fs = append(fs, s.zeroBySort(decl[i]))
					continue
				}
				fs = append(fs, s.Zero(u.Field(i).Type()))
			}
			return "(mk_" + srt + " " + strings.Join(fs, " ") + ")"
		}
	}
	return "zero_" + srt
}

// zeroBySort builds a zero value from the sort name alone (opaque fields of recursive types).
func (s *Sorts) zeroBySort(srt string) string {
	switch {
	case strings.HasPrefix(srt, "Slice_"):
		e := strings.TrimPrefix(srt, "Slice_")
		return s.NilSlice(e, s.zeroBySort(e))
	case strings.HasPrefix(srt, "Map_"):
		rest := strings.TrimPrefix(srt, "Map_")
		if i := strings.Index(rest, "_"); i > 0 {
			k, v := rest[:i], rest[i+1:]
			return fmt.Sprintf("(mk_%s ((as const (Array %s Bool)) false) %s true)", srt, k, s.ConstArray(k, v, s.zeroBySort(v)))
		}
	}
	return s.zeroOfSort(srt, nil)
}

func (s *Sorts) NilSlice(elemSort, elemZero string) string {
	n := "Slice_" + elemSort
	return fmt.Sprintf("(mk_%s %s 0 true)", n, s.ConstArray("Int", elemSort, elemZero))
}

// ConstArray returns a constant array term. cvc5 accepts only values as the default
// of (as const ...), so when the element zero mentions an abstract constant
// (type parameters) an unconstrained named array is used instead.
func (s *Sorts) ConstArray(k, v, zero string) string {
	if strings.Contains(zero, "zero_") {
		n := "anyarr_" + sanitize(k) + "_" + sanitize(v)
		if !s.done[n] {
			s.done[n] = true
			s.decls = append(s.decls, fmt.Sprintf("(declare-const %s (Array %s %s))", n, k, v))
		}
		return n
	}
	return fmt.Sprintf("((as const (Array %s %s)) %s)", k, v, zero)
}

// StructFieldSel returns the selector name for field i of struct sort name.
func fieldSel(structSort, field string) string { return structSort + "_" + sanitize(field) }

func sortedKeys[V any](m map[string]V) []string {
	var ks []string
	for k := range m {
		ks = append(ks, k)
	}
	sort.Strings(ks)
	return ks
}

// typeParamIsString reports whether every type in the constraint's type set has underlying type string (K ~string).
func typeParamIsString(tp *types.TypeParam) bool {
	iface, ok := tp.Constraint().Underlying().(*types.Interface)
	if !ok || iface.NumEmbeddeds() == 0 {
		return false
	}
	for i := 0; i < iface.NumEmbeddeds(); i++ {
		u, ok := iface.EmbeddedType(i).(*types.Union)
		if !ok {
			if b, ok := iface.EmbeddedType(i).Underlying().(*types.Basic); ok && b.Info()&types.IsString != 0 {
				continue
			}
			return false
		}
		for j := 0; j < u.Len(); j++ {
			b, ok := u.Term(j).Type().Underlying().(*types.Basic)
			if !ok || b.Info()&types.IsString == 0 {
				return false
			}
		}
	}
	return true
}
