package engine

import (
	"fmt"
	"go/types"
	"os"
	"sort"
	"strings"

	"govc/internal/spec"

	"golang.org/x/tools/go/ssa"
)

// ---------------------------------------------------------------- local variable resolution

type localDef struct {
	v      ssa.Value
	isAddr bool
}

func (fr *Frame) noteDebugRef(d *ssa.DebugRef) {
	obj := d.Object()
	if obj == nil {
		return
	}
	if obj.Pkg() != nil && obj.Parent() == obj.Pkg().Scope() {
		return // package-level object: always read through its global cell
	}
	if _, isVar := obj.(*types.Var); !isVar {
		return
	}
	if fr.lastDef == nil {
		fr.lastDef = map[string]localDef{}
	}
	fr.lastDef[obj.Name()] = localDef{d.X, d.IsAddr}
}

func (fr *Frame) isParamName(name string) bool {
	for _, p := range fr.fn.Params {
		if p.Name() == name {
			return true
		}
	}
	return false
}

func (fr *Frame) hasLocal(name string) bool {
	for _, p := range fr.fn.Params {
		if p.Name() == name {
			return true
		}
	}
	for _, f := range fr.fn.FreeVars {
		if f.Name() == name {
			return true
		}
	}
	_, ok := fr.lastDef[name]
	return ok
}

// resolveLocal finds the current value of a source-level variable.
func (fr *Frame) resolveLocal(name string, st *State) (Val, bool) {
	vc := fr.vc
	readPtr := func(v Val) Val {
		pt := v.T.Underlying().(*types.Pointer)
		if v.Loc == nil {
			return Val{T: pt.Elem(), Term: fmt.Sprintf("(val_%s %s)", vc.S.Sort(pt.Elem()), v.Term)}
		}
		if len(v.Loc.Path) == 0 {
			if pv, ok := st.ptrs[v.Loc.Cell]; ok {
				pv.T = pt.Elem()
				return pv // a captured pointer variable: the pointer it holds, with its identity
			}
		}
		out := Val{T: pt.Elem(), Term: vc.load(st, v.Loc)}
		switch pt.Elem().Underlying().(type) {
		case *types.Slice, *types.Map, *types.Pointer:
			out.Home = v.Loc
		}
		return out
	}
	// loop-header phis named after the variable take precedence inside loops
	if fr.curLoopHead != nil {
		for _, in := range fr.curLoopHead.Instrs {
			phi, ok := in.(*ssa.Phi)
			if !ok {
				break
			}
			if phi.Comment == name {
				if v, ok := fr.env[phi]; ok {
					return v, true
				}
			}
		}
	}
	// address-taken / captured variables live in an alloc named after them: always current
	var best *Val
	for v, val := range fr.env {
		if a, ok := v.(*ssa.Alloc); ok && a.Comment == name && val.Loc != nil {
			if best == nil || val.Loc.Cell.id > best.Loc.Cell.id {
				vv := val
				best = &vv
			}
		}
	}
	if best != nil && !((fr.postMode || fr.oldMode) && fr.isParamName(name)) {
		return readPtr(*best), true
	}
	if !fr.postMode && !(fr.oldMode && fr.isParamName(name)) {
		if d, ok := fr.lastDef[name]; ok {
			if v, ok := fr.env[d.v]; ok {
				if d.isAddr {
					return readPtr(v), true
				}
				return v, true
			}
			if c, ok := d.v.(*ssa.Const); ok {
				return vc.constVal(c), true
			}
		}
	}
	for _, p := range fr.fn.Params {
		if p.Name() == name {
			return fr.env[p], true
		}
	}
	for _, f := range fr.fn.FreeVars {
		if f.Name() == name {
			if v, ok := fr.env[f]; ok {
				if _, isPtr := v.T.Underlying().(*types.Pointer); isPtr {
					return readPtr(v), true
				}
				return v, true
			}
		}
	}
	if d, ok := fr.lastDef[name]; ok {
		if v, ok := fr.env[d.v]; ok {
			if d.isAddr {
				return readPtr(v), true
			}
			return v, true
		}
	}
	// address-taken locals are allocs named after the variable
	for v, val := range fr.env {
		if a, ok := v.(*ssa.Alloc); ok && a.Comment == name {
			return readPtr(val), true
		}
	}
	if fr.nameFrame != nil && fr.nameFrame != fr {
		return fr.nameFrame.resolveLocal(name, st)
	}
	// an inlined closure may mention variables of the function it is written in; the invariants of a loop that lives in
	// a helper executed in place are written over the variables of the function under contract
	if fr.parent != nil && (fr.fn.Parent() != nil || fr.flatOwner != nil) {
		return fr.parent.resolveLocal(name, st)
	}
	return Val{}, false
}

// localLoc returns the storage location of an address-taken local / captured variable.
func (fr *Frame) localLoc(name string) (*Loc, types.Type, bool) {
	for _, f := range fr.fn.FreeVars {
		if f.Name() == name {
			if v, ok := fr.env[f]; ok && v.Loc != nil {
				return v.Loc, v.T.Underlying().(*types.Pointer).Elem(), true
			}
		}
	}
	for v, val := range fr.env {
		if a, ok := v.(*ssa.Alloc); ok && a.Comment == name && val.Loc != nil {
			return val.Loc, val.T.Underlying().(*types.Pointer).Elem(), true
		}
	}
	if fr.nameFrame != nil && fr.nameFrame != fr {
		return fr.nameFrame.localLoc(name)
	}
	if fr.parent != nil && fr.flatOwner != nil {
		return fr.parent.localLoc(name)
	}
	return nil, nil, false
}

// ---------------------------------------------------------------- verification units

// Unit is the result of generating VCs for one function or lemma.
type Unit struct {
	Key     string
	VC      *VC
	Trusted bool
	Why     string
}

// VerifyFunc generates the verification conditions of one function under contract.
func (w *World) VerifyFunc(key string) *Unit {
	fn := w.Funcs[key]
	sp := w.Specs[key]
	vc := NewVC(w, key)
	u := &Unit{Key: key, VC: vc}
	if fn == nil {
		vc.outside("contract for %s: no such function in the current tree", key)
		if sp != nil {
			// every clause becomes an undischargeable obligation (fail closed, DESIGN 2.9)
			for i, c := range sp.Ensures {
				label := c.Label
				if label == "" {
					label = fmt.Sprint(i + 1)
				}
				vc.oblige(key, "ensures", label, clauseProps(c, sp.Props), "true", "false")
			}
		}
		return u
	}
	if sp != nil && sp.Trusted {
		u.Trusted, u.Why = true, sp.TrustWhy
		return u
	}
	w.declareSorts(vc)
	fr := vc.newFrame(fn, nil)
	st := NewState()
	cond := "true"
	// the effect trace exists from the start, so that loops and callees that log events always havoc it
	vc.traceCells(st)
	// parameters
	for i, p := range fn.Params {
		t := p.Type()
		switch pt := t.Underlying().(type) {
		case *types.Pointer:
			if pat := w.regexParam(fn, i); pat != nil {
				fr.env[p] = Val{T: t, Re: pat, Term: "0"}
				continue
			}
			c := vc.newCell(p.Name(), pt.Elem())
			st.cells[c] = vc.declareConst("in_"+sanitize(p.Name())+"_pointee", vc.S.Sort(pt.Elem()))
			nilT := "false"
			isRecv := i == 0 && fn.Signature.Recv() != nil
			if !isRecv {
				nilT = vc.declareConst("in_"+sanitize(p.Name())+"_isnil", "Bool")
			} else {
				vc.Assumed["A15: method receivers are non-nil (checked at static call sites)"] = true
			}
			fr.env[p] = Val{T: t, Loc: &Loc{Cell: c}, Nil: nilT}
		default:
			v := Val{T: t, Term: vc.declareConst("in_"+sanitize(p.Name()), vc.S.Sort(t))}
			if fr.mutated[p] {
				v = fr.ensureObj(v, st, p.Name())
			}
			if _, isSlice := t.Underlying().(*types.Slice); isSlice && (fr.mutated[p] || fr.mutatedParams[p]) {
				// A3/A4 guard: writing the elements of a slice received by value changes memory the caller can
				// see; the value semantics used here would hide that, so it is an obligation that cannot be discharged
				// unless the contract declares it (`modifies <param>`).
				declared := false
				if sp != nil {
					for _, m := range sp.Modifies {
						if rootIdent(m) == p.Name() || w.renamed(fn, rootIdent(m)) == p.Name() {
							declared = true
						}
					}
				}
				if !declared {
					var pr []string
					if sp != nil {
						pr = sp.Props
					}
					vc.curPos = fr.pos(fn.Pos())
					vc.oblige(key, "frame", "no-inplace-write-to-"+w.lockedName(fn, p.Name()), pr, "true", "(= 0 1)")
				}
			}
			fr.env[p] = v
		}
	}
	for _, f := range fn.FreeVars {
		t := f.Type()
		if pt, ok := t.Underlying().(*types.Pointer); ok {
			c := vc.newCell(f.Name(), pt.Elem())
			st.cells[c] = vc.declareConst("fv_"+sanitize(f.Name()), vc.S.Sort(pt.Elem()))
			fr.env[f] = Val{T: t, Loc: &Loc{Cell: c}, Nil: "false"}
		} else {
			fr.env[f] = Val{T: t, Term: vc.declareConst("fv_"+sanitize(f.Name()), vc.S.Sort(t))}
		}
	}
	fr.params = nil
	// global invariants of the function's package (proved for the package initialiser, or assumed with a reason)
	if pk := calleePkg(fn); pk != nil {
		for _, g := range w.Globals[pk.Path()] {
			env := fr.specEnvAt(st, nil)
			env.old = st
			vc.fact(env.compileBool(g.Clause.Expr))
			if g.Assumed {
				vc.Assumed["global invariant assumed, not proved: "+g.Clause.Label] = true
			}
		}
	}
	// preconditions
	var props []string
	if sp != nil {
		for _, un := range sp.Uses {
			uenv := fr.specEnvAt(st, nil)
			uenv.old = st
			if stmt, name, ok := w.useLemma(vc, uenv, un); ok {
				vc.fact(stmt)
				vc.Assumed["lemma used (proved separately): "+name] = true
			} else {
				vc.outside("uses unknown lemma %s", un)
			}
		}
		props = sp.Props
		env := fr.specEnvAt(st, nil)
		env.old = st
		for _, r := range sp.Requires {
			vc.fact(env.compileBool(r.Expr))
		}
		// vacuity guard: the precondition must be satisfiable
		if len(sp.Requires) > 0 {
			o := vc.oblige(key, "cover", "requires-satisfiable", props, "true", "false")
			if o != nil {
				o.Cover = true
			}
		}
	}
	entry := st.clone()
	retCond, retState, results := fr.run(cond, st)
	fr.entry = entry
	if retCond == "false" {
		vc.warn("%s: no return reachable", key)
		return u
	}
	// vacuity guard (thorough tier): the facts collected along the way (callee contracts, invariants, axioms) must
	// leave some way to reach a return; inconsistent facts would make every postcondition "hold"
	if o := vc.oblige(key, "cover", "exit-reachable", props, retCond, "false"); o != nil {
		o.Cover = true
		o.Deep = true
	}
	// what a replay of a counterexample needs
	rc := &ReplayCtx{Fn: fn, RetCond: retCond}
	for _, p := range fn.Params {
		v := fr.env[p]
		rv := ReplayVar{Name: p.Name(), T: p.Type()}
		if pt, isPtr := p.Type().Underlying().(*types.Pointer); isPtr && v.Loc != nil && len(v.Loc.Path) == 0 {
			rv.T = pt.Elem()
			rv.Term = entry.cells[v.Loc.Cell]
			rv.NilTerm = v.Nil
			if rv.NilTerm == "" {
				rv.NilTerm = "false"
			}
			rv.PostTerm = retState.cells[v.Loc.Cell]
		} else if v.Obj != nil {
			rv.Term = entry.cells[v.Obj]
		} else {
			rv.Term = v.Term
		}
		rc.Params = append(rc.Params, rv)
	}
	for i, r := range results {
		rc.Results = append(rc.Results, ReplayVar{Name: fmt.Sprintf("result%d", i), T: r.T, Term: vc.term(retState, r)})
	}
	vc.Replay = rc
	if sp == nil {
		return u
	}
	// postconditions
	fr.postMode = true
	env := fr.specEnvAt(retState, nil)
	env.old = entry
	env.results = results
	env.resultNames = resultNames(fn, sp)
	if p := fn.Pos(); p.IsValid() {
		vc.curPos = fr.pos(p)
	}
	for i, c := range sp.Ensures {
		label := c.Label
		if label == "" {
			label = fmt.Sprint(i + 1)
		}
		g := env.compileBool(c.Expr)
		if o := vc.oblige(key, "ensures", label, clauseProps(c, props), retCond, g); o != nil {
			o.Group = c.Group
		}
	}
	// determinacy: the postconditions admit at most one result (value results only)
	if sp.Deterministic {
		var second []Val
		for i, r := range results {
			second = append(second, Val{T: r.T, Term: vc.fresh(fmt.Sprintf("other_result%d", i), vc.S.Sort(r.T))})
		}
		env2 := fr.specEnvAt(retState, nil)
		env2.old = entry
		env2.results = second
		env2.resultNames = resultNames(fn, sp)
		var hyps []string
		for _, c := range sp.Ensures {
			hyps = append(hyps, env.compileBool(c.Expr), env2.compileBool(c.Expr))
		}
		var eqs []string
		for i, r := range results {
			eqs = append(eqs, eq(vc.term(retState, r), second[i].Term))
		}
		vc.oblige(key, "deterministic", "result", append([]string{"C08"}, props...), retCond, implies(and(hyps...), and(eqs...)))
	}
	// frame: pointer parameters may change only where `modifies` says
	for _, p := range fn.Params {
		v := fr.env[p]
		if v.Loc == nil || len(v.Loc.Path) != 0 {
			continue
		}
		c := v.Loc.Cell
		final := retState.cells[c]
		init := entry.cells[c]
		if os.Getenv("GOVC_DEBUG") != "" {
			fmt.Fprintf(os.Stderr, "frame %s %s: init=%.60s final=%.60s\n", key, p.Name(), init, final)
		}
		if final == init {
			continue
		}
		adjusted := final
		for _, m := range sp.Modifies {
			if rootIdent(m) != p.Name() && w.renamed(fn, rootIdent(m)) != p.Name() {
				continue
			}
			menv := fr.specEnvAt(entry, nil)
			menv.old = entry
			loc, _ := menv.compileLoc(m)
			if loc != nil && loc.Cell == c {
				adjusted = vc.writePath(adjusted, loc.Path, vc.readPath(init, loc.Path))
			}
		}
		vc.oblige(key, "frame", w.lockedName(fn, p.Name()), props, retCond, eq(adjusted, init))
	}
	fr.postMode = false
	return u
}

// regexParam: parameters of type *regexp.Regexp are symbolic regex values; only
// MatchString through a known pattern is modelled, so such functions treat the
// regex as opaque (calls become uninterpreted).
func (w *World) regexParam(fn *ssa.Function, i int) *string { return nil }

func (w *World) declareSorts(vc *VC) {
	for _, sd := range w.SortDs {
		dt := &DT{Name: sd.Name}
		env := &SpecEnv{vc: vc, st: NewState(), names: map[string]Val{}, bound: map[string]Val{}}
		if p := w.PkgByPath[sd.Pkg]; p != nil {
			env.pkg = p.Types
		}
		for _, c := range sd.Ctors {
			dc := DTCtor{Name: c.Name}
			for _, f := range c.Fields {
				_, srt, ok := env.resolveType(f.Type)
				if !ok {
					vc.outside("sort %s: unknown field type %s", sd.Name, f.Type)
					srt = "Int"
				}
				dc.Fields = append(dc.Fields, DTField{f.Name, srt})
			}
			dt.Ctors = append(dt.Ctors, dc)
		}
		w.Sorts.DeclareDT(dt)
	}
}

// VerifyLemma generates the obligations of a lemma: hypotheses ⊢ conclusions,
// where calls to pure functions are constrained only by their contracts.
func (w *World) VerifyLemma(l *spec.Lemma) *Unit {
	key := shortPath(l.Pkg) + ":lemma " + l.Name
	vc := NewVC(w, key)
	w.declareSorts(vc)
	env := &SpecEnv{vc: vc, st: NewState(), names: map[string]Val{}, bound: map[string]Val{}}
	env.old = env.st
	if p := w.PkgByPath[l.Pkg]; p != nil {
		env.pkg = p.Types
	}
	for _, v := range l.Vars {
		t, srt, ok := env.resolveType(v.Type)
		if !ok {
			vc.outside("lemma %s: unknown type %s", l.Name, v.Type)
			continue
		}
		env.names[v.Name] = Val{T: t, Sort: sortIfSpec(t, srt), Term: vc.declareConst("lv_"+v.Name, srt)}
	}
	for _, un := range l.Uses {
		stmt, _, ok := w.useLemma(vc, env, un)
		if !ok {
			vc.outside("lemma %s uses unknown lemma %s", l.Name, un)
			continue
		}
		vc.fact(stmt)
	}
	if l.Induction != "" {
		// natural induction on an int variable k (the other variables stay fixed): P(k) := hyps(k) ==> concl(k).
		// base: P(0); step: k >= 0 /\ P(k) /\ hyps(k+1) ==> concl(k+1). Hypotheses go into the obligation's
		// condition, not into the shared facts, so that the two cases do not see each other's assumptions.
		k := l.Induction
		if v, ok := env.names[k]; !ok || v.Sort != "" && v.Sort != "Int" || vc.S.Sort(v.T) != "Int" {
			vc.outside("lemma %s: induction variable %s is not an int variable of the lemma", l.Name, k)
			return &Unit{Key: key, VC: vc}
		}
		zero := &spec.IntLit{Val: "0"}
		succ := &spec.Binary{Op: "+", L: &spec.Ident{Name: k}, R: &spec.IntLit{Val: "1"}}
		at := func(cs []*spec.Clause, with spec.Expr) []string {
			var out []string
			for _, c := range cs {
				ex := c.Expr
				if with != nil {
					ex = spec.Subst(ex, k, with)
				}
				out = append(out, env.compileBool(ex))
			}
			return out
		}
		base := and(at(l.Hyps, zero)...)
		ih := implies(and(at(l.Hyps, nil)...), and(at(l.Concl, nil)...))
		step := and(fmt.Sprintf("(>= %s 0)", env.names[k].Term), ih, and(at(l.Hyps, succ)...))
		for i, c := range l.Concl {
			label := c.Label
			if label == "" {
				label = fmt.Sprint(i + 1)
			}
			vc.oblige(key, "lemma-base", label, clauseProps(c, l.Props), base, env.compileBool(spec.Subst(c.Expr, k, zero)))
			vc.oblige(key, "lemma-step", label, clauseProps(c, l.Props), step, env.compileBool(spec.Subst(c.Expr, k, succ)))
		}
		return &Unit{Key: key, VC: vc}
	}
	for _, h := range l.Hyps {
		vc.fact(env.compileBool(h.Expr))
	}
	if len(l.Hyps) > 0 {
		if o := vc.oblige(key, "cover", "hypotheses-satisfiable", l.Props, "true", "false"); o != nil {
			o.Cover = true
		}
	}
	for i, c := range l.Concl {
		label := c.Label
		if label == "" {
			label = fmt.Sprint(i + 1)
		}
		g := env.compileBool(c.Expr)
		vc.oblige(key, "lemma", label, clauseProps(c, l.Props), "true", g)
	}
	return &Unit{Key: key, VC: vc}
}

// addAxioms adds the axioms whose spec functions are declared in vc (to a fixpoint).
func (w *World) addAxioms(vc *VC) {
	done := map[*spec.Axiom]bool{}
	for changed := true; changed; {
		changed = false
		for _, ax := range w.Axioms {
			if done[ax] {
				continue
			}
			relevant := false
			for name := range w.SpecFns {
				if vc.declOf["specfn:"+name] && mentions(ax.Expr, name) {
					relevant = true
					break
				}
			}
			if !relevant {
				// axioms about pure external functions: relevant once that function's symbol is declared
				for _, q := range qualifiedCalls(ax.Expr) {
					suffix := "_" + sanitize(q)
					for d := range vc.declOf {
						if strings.HasPrefix(d, "pure_") && strings.HasSuffix(d, suffix) {
							relevant = true
						}
					}
				}
			}
			if !relevant {
				continue
			}
			done[ax] = true
			changed = true
			env := &SpecEnv{vc: vc, st: NewState(), names: map[string]Val{}, bound: map[string]Val{}}
			env.old = env.st
			if p := w.PkgByPath[ax.Pkg]; p != nil {
				env.pkg = p.Types
			}
			saved, savedG := vc.facts, vc.fgroup
			vc.facts, vc.fgroup = nil, nil
			t := env.compileBool(ax.Expr)
			extra := vc.facts
			vc.facts, vc.fgroup = saved, savedG
			vc.axioms = append(vc.axioms, extra...)
			vc.axioms = append(vc.axioms, t)
			vc.Assumed["axiom: "+ax.Name] = true
		}
	}
}

func mentions(e spec.Expr, name string) bool {
	return strings.Contains(e.String(), name+"(")
}

// UnitKeys returns the keys of all functions under contract, sorted.
func (w *World) UnitKeys() []string {
	var ks []string
	for k, s := range w.Specs {
		if s.NoBody {
			continue
		}
		if strings.Contains(k, ":init#") {
			continue // verified inlined into the package initialiser
		}
		if s.Kind == "closure" {
			continue // verified inlined into the parent
		}
		if f := w.Funcs[k]; f != nil && f.Parent() != nil && len(f.FreeVars) > 0 && !closureEscapes(f) {
			continue // closures with captured variables that the parent calls are verified inlined into the parent
		}
		ks = append(ks, k)
	}
	sort.Strings(ks)
	return ks
}

// Finish completes a VC after generation (axioms).
func (w *World) Finish(vc *VC) { w.addAxioms(vc) }

// useLemma compiles one `uses` reference in env: the universally quantified statement for a bare name, the statement
// with the lemma's variables replaced by the given expressions for name(e1, ..., en).
func (w *World) useLemma(vc *VC, env *SpecEnv, ref string) (string, string, bool) {
	name, args := ref, ""
	if i := strings.Index(ref, "("); i > 0 && strings.HasSuffix(ref, ")") {
		name, args = ref[:i], ref[i+1:len(ref)-1]
	}
	var used *spec.Lemma
	for _, o := range w.Lemmas {
		if o.Name == name {
			used = o
		}
	}
	if used == nil {
		return "", name, false
	}
	if args == "" && !strings.Contains(ref, "(") {
		return w.lemmaStatement(vc, used), name, true
	}
	ce, err := spec.ParseExpr("f(" + args + ")")
	call, ok := ce.(*spec.Call)
	if err != nil || !ok || len(call.Args) != len(used.Vars) {
		vc.outside("uses %s: wants %d arguments", ref, len(used.Vars))
		return "", name, false
	}
	conj := func(cs []*spec.Clause) spec.Expr {
		var e spec.Expr = &spec.BoolLit{Val: true}
		for i, c := range cs {
			if i == 0 {
				e = c.Expr
			} else {
				e = &spec.Binary{Op: "&&", L: e, R: c.Expr}
			}
		}
		return e
	}
	var body spec.Expr = conj(used.Concl)
	if len(used.Hyps) > 0 {
		body = &spec.Binary{Op: "==>", L: conj(used.Hyps), R: body}
	}
	if used.Induction != "" {
		body = &spec.Binary{Op: "==>", L: &spec.Binary{Op: ">=", L: &spec.Ident{Name: used.Induction}, R: &spec.IntLit{Val: "0"}}, R: body}
	}
	// simultaneous substitution through fresh intermediate names (arguments may mention the lemma's variable names)
	for i, v := range used.Vars {
		body = spec.Subst(body, v.Name, &spec.Ident{Name: fmt.Sprintf("$use%d", i)})
	}
	for i := range used.Vars {
		body = spec.Subst(body, fmt.Sprintf("$use%d", i), call.Args[i])
	}
	return env.compileBool(body), name, true
}

// lemmaStatement returns the universally quantified statement of a lemma.
func (w *World) lemmaStatement(vc *VC, l *spec.Lemma) string {
	env := &SpecEnv{vc: vc, st: NewState(), names: map[string]Val{}, bound: map[string]Val{}}
	env.old = env.st
	if p := w.PkgByPath[l.Pkg]; p != nil {
		env.pkg = p.Types
	}
	conj := func(cs []*spec.Clause) spec.Expr {
		var e spec.Expr = &spec.BoolLit{Val: true}
		for i, c := range cs {
			if i == 0 {
				e = c.Expr
			} else {
				e = &spec.Binary{Op: "&&", L: e, R: c.Expr}
			}
		}
		return e
	}
	var body spec.Expr = conj(l.Concl)
	if len(l.Hyps) > 0 {
		body = &spec.Binary{Op: "==>", L: conj(l.Hyps), R: body}
	}
	if l.Induction != "" {
		// proved for the natural numbers only
		body = &spec.Binary{Op: "==>", L: &spec.Binary{Op: ">=", L: &spec.Ident{Name: l.Induction}, R: &spec.IntLit{Val: "0"}}, R: body}
	}
	if len(l.Vars) == 0 {
		return env.compileBool(body)
	}
	return env.compileBool(&spec.Quant{Forall: true, Vars: l.Vars, Body: body})
}

// VerifyInit proves the global invariants of a package for its initialiser: starting from
// zero-valued globals, after running the synthetic init function (with the user's init
// functions inlined) every non-assumed `global` clause holds.
func (w *World) VerifyInit(pkgPath string) *Unit {
	key := shortPath(pkgPath) + ":init"
	vc := NewVC(w, key)
	u := &Unit{Key: key, VC: vc}
	p := w.PkgByPath[pkgPath]
	if p == nil {
		vc.outside("no such package %s", pkgPath)
		return u
	}
	sp := w.Prog.Package(p.Types)
	init := sp.Func("init")
	if init == nil || init.Blocks == nil {
		vc.outside("package %s has no initialiser", pkgPath)
		return u
	}
	w.declareSorts(vc)
	fr := vc.newFrame(init, nil)
	fr.inlineInits = true
	st := NewState()
	for _, m := range sp.Members {
		if g, ok := m.(*ssa.Global); ok {
			c := w.globalCell(vc, g)
			st.cells[c] = vc.S.Zero(g.Type().(*types.Pointer).Elem())
		}
	}
	retCond, retState, _ := fr.run("true", st)
	if retCond == "false" {
		vc.outside("initialiser of %s does not return", pkgPath)
		return u
	}
	for i, g := range w.Globals[pkgPath] {
		if g.Assumed {
			continue
		}
		env := fr.specEnvAt(retState, nil)
		env.old = retState
		env.pkg = p.Types
		label := g.Clause.Label
		if label == "" {
			label = fmt.Sprint(i + 1)
		}
		vc.oblige(key, "global", label, g.Clause.Props, retCond, env.compileBool(g.Clause.Expr))
	}
	return u
}

// InitUnits lists the packages that have provable global invariants.
func (w *World) InitUnits() []string {
	var out []string
	for p, gs := range w.Globals {
		for _, g := range gs {
			if !g.Assumed {
				out = append(out, p)
				break
			}
		}
	}
	sort.Strings(out)
	return out
}

// qualifiedCalls lists the pkg.Name functions called in an expression.
func qualifiedCalls(e spec.Expr) []string {
	var out []string
	var walk func(e spec.Expr)
	walk = func(e spec.Expr) {
		switch x := e.(type) {
		case *spec.Call:
			if sel, ok := x.Fun.(*spec.Select); ok {
				if id, ok := sel.X.(*spec.Ident); ok {
					out = append(out, id.Name+"."+sel.Name)
				}
			}
			for _, a := range x.Args {
				walk(a)
			}
		case *spec.Binary:
			walk(x.L)
			walk(x.R)
		case *spec.Unary:
			walk(x.X)
		case *spec.Quant:
			walk(x.Body)
		case *spec.Cond:
			walk(x.C)
			walk(x.T)
			walk(x.E)
		case *spec.Let:
			walk(x.Val)
			walk(x.Body)
		case *spec.Old:
			walk(x.X)
		case *spec.Index:
			walk(x.X)
			walk(x.I)
		case *spec.Select:
			walk(x.X)
		}
	}
	walk(e)
	return out
}

// closureEscapes reports whether a function literal is stored or handed to code that is not inlined (e.g. a cobra
// RunE field): such a closure is verified on its own, with its captured variables as arbitrary inputs.
func closureEscapes(f *ssa.Function) bool {
	p := f.Parent()
	if p == nil {
		return false
	}
	for _, b := range p.Blocks {
		for _, in := range b.Instrs {
			mc, ok := in.(*ssa.MakeClosure)
			if !ok || mc.Fn != f {
				continue
			}
			for _, r := range *mc.Referrers() {
				ci, ok := r.(ssa.CallInstruction)
				if !ok {
					return true
				}
				c := ci.Common()
				if c.Value == mc {
					continue // called (or deferred) directly
				}
				if callee := c.StaticCallee(); callee != nil && (isMapsIterate(callee) || strings.HasPrefix(qualifiedName(callee), "sort.Slice")) {
					continue
				}
				return true
			}
		}
	}
	return false
}
