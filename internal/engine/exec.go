package engine

import (
	"fmt"
	"go/token"
	"go/types"
	"sort"
	"strings"

	"govc/internal/spec"

	"golang.org/x/tools/go/ssa"
)

type edgeIn struct {
	from *ssa.BasicBlock
	cond string
	st   *State
}

type deferred struct {
	cond string
	call *ssa.CallCommon
	fr   *Frame
}

type loopInfo struct {
	head    *ssa.BasicBlock
	body    map[*ssa.BasicBlock]bool
	ordinal int
	spec    *spec.LoopSpec
	// set when the header is processed:
	entryState *State
	idxPhi     *ssa.Phi // range-over-slice index phi (for $i)
	rng        *RangeState
	lenVal     ssa.Value // range-over-slice: the precomputed length compared against in the header
	idxTerm    string    // for virtual (Iterate) loops: the $i term
	ownerKey   string    // obligations are named after this function (maps.Iterate loops belong to the caller)
	ownerFrame *Frame    // names in the invariants are resolved in this frame
	frame      *Frame    // frame in which the loop physically lives
}

// Frame is the execution of one function body (top-level or inlined).
type Frame struct {
	vc            *VC
	logRecv       []Val // receiver of the effectful call being logged (for evFrom)
	fn            *ssa.Function
	key           string
	spec          *spec.FuncSpec
	props         []string
	env           map[ssa.Value]Val
	depth         int
	defers        []deferred
	loops         map[*ssa.BasicBlock]*loopInfo
	back          map[[2]*ssa.BasicBlock]bool
	in            map[*ssa.BasicBlock][]edgeIn
	blockCond     map[*ssa.BasicBlock]string
	rets          []retInfo
	entry         *State
	top           *Frame             // outermost frame (owner of obligations' naming)
	mutated       map[ssa.Value]bool // slice values written through IndexAddr
	curBlock      *ssa.BasicBlock
	curIdx        int
	virtOrd       map[token.Pos]int // ordinal of maps.Iterate virtual loops by call position
	inlOrd        map[token.Pos]int // for calls of helpers executed in place: the ordinals their loops take start after this number
	inlineAt      token.Pos         // position of the call about to be executed in place
	flatOwner     *Frame            // for a helper executed in place: the frame whose contract numbers (and owns) its loops
	params        []Val
	parent        *Frame
	loopOv        *loopOverride
	lastDef       map[string]localDef
	curLoopHead   *ssa.BasicBlock
	postMode      bool
	oldMode       bool // names are being resolved inside old(...): parameters mean their entry values
	nameFrame     *Frame
	lastPartial   map[*Cell]map[int]bool
	inlineInits   bool
	mutatedParams map[*ssa.Parameter]bool
	curState      *State    // state at the point of the current loop/call analysis (for pointer-valued cells)
	activeIter    *loopInfo // the maps.Iterate loop whose callback is currently being executed inline (for `visited`)
}

type retInfo struct {
	cond string
	st   *State
	vals []Val
}

func (vc *VC) newFrame(fn *ssa.Function, parent *Frame) *Frame {
	fr := &Frame{vc: vc, fn: fn, key: FuncKey(fn), env: map[ssa.Value]Val{}, loops: map[*ssa.BasicBlock]*loopInfo{},
		back: map[[2]*ssa.BasicBlock]bool{}, in: map[*ssa.BasicBlock][]edgeIn{}, blockCond: map[*ssa.BasicBlock]string{},
		mutated: map[ssa.Value]bool{}, virtOrd: map[token.Pos]int{}, inlOrd: map[token.Pos]int{}}
	fr.spec = vc.W.SpecFor(fn)
	if fr.spec != nil {
		fr.props = fr.spec.Props
	}
	if parent != nil {
		fr.depth = parent.depth + 1
		fr.top = parent.top
		if len(fr.props) == 0 {
			fr.props = parent.props
		}
	} else {
		fr.top = fr
	}
	fr.analyse()
	return fr
}

// analyse finds back edges, loops (numbered in source order together with
// maps.Iterate call sites) and slices mutated in place.
func (fr *Frame) analyse() {
	fn := fr.fn
	type loopSite struct {
		blk  int // block index (SSA blocks are created in source order: outer before inner, earlier before later)
		idx  int // instruction index inside the block
		head *ssa.BasicBlock
		call token.Pos
		inl  int // > 0: a call of a helper executed in place whose body has this many loop sites
	}
	var sites []loopSite
	for _, b := range fn.Blocks {
		for _, s := range b.Succs {
			if s.Dominates(b) {
				fr.back[[2]*ssa.BasicBlock{b, s}] = true
				li := fr.loops[s]
				if li == nil {
					li = &loopInfo{head: s, body: map[*ssa.BasicBlock]bool{s: true}}
					fr.loops[s] = li
				}
				// natural loop: nodes reaching b without passing through s
				stack := []*ssa.BasicBlock{b}
				for len(stack) > 0 {
					x := stack[len(stack)-1]
					stack = stack[:len(stack)-1]
					if li.body[x] {
						continue
					}
					li.body[x] = true
					stack = append(stack, x.Preds...)
				}
			}
		}
		for _, in := range b.Instrs {
			switch in := in.(type) {
			case *ssa.Store:
				fr.markMutated(in.Addr)
			case *ssa.Call:
				if isMapsIterate(in.Call.StaticCallee()) {
					sites = append(sites, loopSite{blk: b.Index, idx: instrIndex(b, in), call: in.Pos()})
				} else if n := fr.vc.W.loopSlots(in.Call.StaticCallee(), 0); n > 0 {
					sites = append(sites, loopSite{blk: b.Index, idx: instrIndex(b, in), call: in.Pos(), inl: n})
				}
				if bi, ok := in.Call.Value.(*ssa.Builtin); ok && bi.Name() == "copy" {
					fr.mutated[in.Call.Args[0]] = true
				}
				if callee := in.Call.StaticCallee(); callee != nil {
					switch qualifiedName(callee) {
					case "sort.Strings":
						fr.mutated[in.Call.Args[0]] = true
					case "sort.Slice", "sort.SliceStable":
						if mi, ok := in.Call.Args[0].(*ssa.MakeInterface); ok {
							fr.mutated[mi.X] = true
						}
					}
				}
			}
		}
	}
	// parameters whose elements are written in place, directly or through the alloc that holds a captured parameter
	paramAlloc := map[*ssa.Alloc]*ssa.Parameter{}
	for _, b := range fn.Blocks {
		for _, in := range b.Instrs {
			if st, ok := in.(*ssa.Store); ok {
				if a, ok := st.Addr.(*ssa.Alloc); ok {
					if p, ok := st.Val.(*ssa.Parameter); ok {
						paramAlloc[a] = p
					}
				}
			}
		}
	}
	fr.mutatedParams = map[*ssa.Parameter]bool{}
	for v := range fr.mutated {
		var roots []ssa.Value
		rootsOf(v, &roots, 0)
		for _, r := range roots {
			switch r := r.(type) {
			case *ssa.Parameter:
				fr.mutatedParams[r] = true
			case *ssa.Alloc:
				if p, ok := paramAlloc[r]; ok {
					fr.mutatedParams[p] = true
				}
			}
		}
	}
	for h := range fr.loops {
		sites = append(sites, loopSite{blk: h.Index, idx: -1, head: h})
	}
	sort.Slice(sites, func(i, j int) bool {
		if sites[i].blk != sites[j].blk {
			return sites[i].blk < sites[j].blk
		}
		return sites[i].idx < sites[j].idx
	})
	// loops are numbered in source order; the loops of a helper that is executed in place take their numbers at the
	// place of the call (moving a loop into a helper, verbatim, keeps every loop's number and the names of its obligations)
	n := 0
	for _, s := range sites {
		switch {
		case s.head != nil:
			n++
			fr.loops[s.head].ordinal = n
			if fr.spec != nil {
				fr.loops[s.head].spec = fr.spec.Loops[n]
			}
		case s.inl > 0:
			fr.inlOrd[s.call] = n
			n += s.inl
		default:
			n++
			fr.virtOrd[s.call] = n
		}
	}
}

// rebase makes the loops of a helper that is executed in place part of the numbering of the frame that owns the contract:
// their ordinals continue after base, their invariants come from the owner's contract, their obligations carry its name.
func (fr *Frame) rebase(base int, owner *Frame) {
	fr.flatOwner = owner
	for _, li := range fr.loops {
		li.ordinal += base
		li.ownerKey = owner.key
		if owner.spec != nil {
			li.spec = owner.spec.Loops[li.ordinal]
		}
	}
	for p := range fr.virtOrd {
		fr.virtOrd[p] += base
	}
	for p := range fr.inlOrd {
		fr.inlOrd[p] += base
	}
}

// loopOwnerFrame: the frame whose contract supplies the invariants of this frame's loops.
func (fr *Frame) loopOwnerFrame() *Frame {
	if fr.flatOwner != nil {
		return fr.flatOwner
	}
	return fr
}

func (fr *Frame) markMutated(addr ssa.Value) {
	for {
		switch a := addr.(type) {
		case *ssa.FieldAddr:
			addr = a.X
			continue
		case *ssa.IndexAddr:
			if _, ok := a.X.Type().Underlying().(*types.Slice); ok {
				fr.mutated[a.X] = true
				return
			}
			addr = a.X
			continue
		}
		return
	}
}

func instrIndex(b *ssa.BasicBlock, in ssa.Instruction) int {
	for i, x := range b.Instrs {
		if x == in {
			return i
		}
	}
	return 0
}

// loopPos approximates the source position of a loop by the smallest position in its header.
func loopPos(h *ssa.BasicBlock) token.Pos {
	best := token.NoPos
	consider := func(p token.Pos) {
		if p.IsValid() && (best == token.NoPos || p < best) {
			best = p
		}
	}
	for _, in := range h.Instrs {
		consider(in.Pos())
	}
	if best == token.NoPos {
		for _, s := range h.Succs {
			for _, in := range s.Instrs {
				consider(in.Pos())
			}
		}
	}
	return best
}

func isMapsIterate(f *ssa.Function) bool {
	if f == nil {
		return false
	}
	if o := f.Origin(); o != nil {
		f = o
	}
	return f.Pkg != nil && f.Pkg.Pkg.Path() == RepoModule+"/internal/pkg/maps" && f.Name() == "Iterate"
}

func isMapsKeys(f *ssa.Function) bool {
	if f == nil {
		return false
	}
	if o := f.Origin(); o != nil {
		f = o
	}
	return f.Pkg != nil && f.Pkg.Pkg.Path() == RepoModule+"/internal/pkg/maps" && f.Name() == "Keys"
}

func (fr *Frame) pos(p token.Pos) token.Position {
	if !p.IsValid() {
		return token.Position{}
	}
	return fr.vc.W.Fset.Position(p)
}

func (fr *Frame) oname() string { return fr.key }

// rpo returns blocks in reverse postorder over forward edges.
func (fr *Frame) rpo() []*ssa.BasicBlock {
	seen := map[*ssa.BasicBlock]bool{}
	var post []*ssa.BasicBlock
	var dfs func(b *ssa.BasicBlock)
	dfs = func(b *ssa.BasicBlock) {
		seen[b] = true
		for _, s := range b.Succs {
			if fr.back[[2]*ssa.BasicBlock{b, s}] || seen[s] {
				continue
			}
			dfs(s)
		}
		post = append(post, b)
	}
	dfs(fr.fn.Blocks[0])
	for i, j := 0, len(post)-1; i < j; i, j = i+1, j-1 {
		post[i], post[j] = post[j], post[i]
	}
	return post
}

// run executes the body. Results are merged over all returns.
func (fr *Frame) run(entryCond string, st *State) (string, *State, []Val) {
	vc := fr.vc
	if fr.depth > 6 {
		vc.outside("inlining depth exceeded at %s", fr.key)
		return "false", st, nil
	}
	fr.entry = st.clone()
	order := fr.rpo()
	fr.in[fr.fn.Blocks[0]] = []edgeIn{{nil, entryCond, st}}
	for _, b := range order {
		ins := fr.in[b]
		var live []edgeIn
		for _, e := range ins {
			if e.cond != "false" {
				live = append(live, e)
			}
		}
		if len(live) == 0 {
			continue
		}
		var conds []string
		for _, e := range live {
			conds = append(conds, e.cond)
		}
		cond := or(conds...)
		if len(live) > 1 || len(cond) > 60 {
			cond = vc.define("bc", "Bool", cond)
		}
		cur := fr.mergeStates(live)
		fr.blockCond[b] = cond
		fr.curBlock = b
		if li := fr.loops[b]; li != nil {
			fr.enterLoop(li, live, cond, cur)
		} else {
			for _, in := range b.Instrs {
				phi, ok := in.(*ssa.Phi)
				if !ok {
					break
				}
				fr.env[phi] = fr.evalPhi(phi, live)
				if fr.mutated[phi] && fr.env[phi].Obj == nil && fr.env[phi].Home == nil {
					if _, isSlice := phi.Type().Underlying().(*types.Slice); isSlice {
						fr.env[phi] = fr.ensureObj(fr.env[phi], cur, phiName(phi))
					}
				}
				if phi.Comment != "" {
					if fr.lastDef == nil {
						fr.lastDef = map[string]localDef{}
					}
					fr.lastDef[phi.Comment] = localDef{phi, false}
				}
			}
		}
		fr.execBlock(b, cond, cur)
	}
	// merge returns
	if len(fr.rets) == 0 {
		return "false", st, nil
	}
	var conds []string
	var eds []edgeIn
	for _, r := range fr.rets {
		conds = append(conds, r.cond)
		eds = append(eds, edgeIn{nil, r.cond, r.st})
	}
	rs := fr.mergeStates(eds)
	n := len(fr.rets[0].vals)
	out := make([]Val, n)
	for i := 0; i < n; i++ {
		v := fr.rets[len(fr.rets)-1].vals[i]
		term := vc.term(fr.rets[len(fr.rets)-1].st, v)
		for j := len(fr.rets) - 2; j >= 0; j-- {
			term = ite(fr.rets[j].cond, vc.term(fr.rets[j].st, fr.rets[j].vals[i]), term)
		}
		if len(fr.rets) == 1 {
			out[i] = v
			if v.Obj != nil || v.Loc != nil {
				out[i] = Val{T: v.T, Term: term}
			}
		} else {
			out[i] = Val{T: v.T, Term: vc.define("ret", vc.S.Sort(v.T), term)}
			if v.Re != nil {
				out[i].Re = v.Re
			}
		}
	}
	return or(conds...), rs, out
}

func (fr *Frame) mergeStates(ins []edgeIn) *State {
	if len(ins) == 1 {
		return ins[0].st.clone()
	}
	vc := fr.vc
	out := NewState()
	cells := map[*Cell]bool{}
	for _, e := range ins {
		for c := range e.st.cells {
			cells[c] = true
		}
	}
	var cl []*Cell
	for c := range cells {
		cl = append(cl, c)
	}
	sort.Slice(cl, func(i, j int) bool { return cl[i].id < cl[j].id })
	for _, c := range cl {
		last := ins[len(ins)-1]
		term, ok := last.st.cells[c]
		if !ok {
			term = vc.load(last.st, &Loc{Cell: c})
		}
		same := true
		for j := len(ins) - 2; j >= 0; j-- {
			t, ok := ins[j].st.cells[c]
			if !ok {
				t = vc.load(ins[j].st, &Loc{Cell: c})
			}
			if t != term {
				same = false
			}
			term = ite(ins[j].cond, t, term)
		}
		if !same && len(term) > 80 {
			term = vc.define("m_"+c.Name, vc.cellSort(c), term)
		}
		out.cells[c] = term
	}
	for c, pv := range ins[0].st.ptrs {
		same := true
		for _, e := range ins[1:] {
			o, ok := e.st.ptrs[c]
			if !ok || o.Loc == nil || pv.Loc == nil || o.Loc.Cell != pv.Loc.Cell || len(o.Loc.Path) != len(pv.Loc.Path) || o.Nil != pv.Nil {
				same = false
				break
			}
			for k := range o.Loc.Path {
				if o.Loc.Path[k] != pv.Loc.Path[k] {
					same = false
				}
			}
		}
		if same {
			out.ptrs[c] = pv
		}
	}
	return out
}

func (fr *Frame) evalPhi(phi *ssa.Phi, live []edgeIn) Val {
	vc := fr.vc
	b := phi.Block()
	var vals []Val
	var conds []string
	var sts []*State
	for _, e := range live {
		idx := -1
		for i, p := range b.Preds {
			if p == e.from {
				idx = i
			}
		}
		if idx < 0 {
			continue
		}
		vals = append(vals, fr.val(phi.Edges[idx]))
		conds = append(conds, e.cond)
		sts = append(sts, e.st)
	}
	if len(vals) == 0 {
		return Val{T: phi.Type(), Term: vc.fresh("phi", vc.S.Sort(phi.Type()))}
	}
	if len(vals) == 1 {
		return vals[0]
	}
	term := vc.term(sts[len(vals)-1], vals[len(vals)-1])
	for j := len(vals) - 2; j >= 0; j-- {
		term = ite(conds[j], vc.term(sts[j], vals[j]), term)
	}
	name := phi.Comment
	if name == "" {
		name = "phi"
	}
	out := Val{T: phi.Type(), Term: vc.define(name, vc.S.Sort(phi.Type()), term)}
	// keep a known regex / closure if all agree
	allRe := true
	for _, v := range vals {
		if v.Re == nil || *v.Re != *vals[0].Re {
			allRe = false
		}
	}
	if allRe {
		out.Re = vals[0].Re
	}
	return out
}

// val evaluates an SSA operand.
func (fr *Frame) val(v ssa.Value) Val {
	vc := fr.vc
	if x, ok := fr.env[v]; ok {
		return x
	}
	switch v := v.(type) {
	case *ssa.Const:
		return vc.constVal(v)
	case *ssa.Global:
		c := vc.W.globalCell(vc, v)
		return Val{T: v.Type(), Loc: &Loc{Cell: c}, Nil: "false"}
	case *ssa.Function:
		if IsRepo(v) && v.Parent() == nil {
			fr.linkFuncValue(v)
		}
		return Val{T: v.Type(), Clo: &Closure{Fn: v}, Term: vc.funcID(v)}
	case *ssa.Builtin:
		return Val{T: v.Type()}
	}
	vc.outside("use of undefined SSA value %s (%T) in %s", v.Name(), v, fr.key)
	x := Val{T: v.Type(), Term: vc.fresh("undef", vc.S.Sort(v.Type()))}
	fr.env[v] = x
	return x
}

var globalCells = map[*VC]map[*ssa.Global]*Cell{}

func (w *World) globalCell(vc *VC, g *ssa.Global) *Cell {
	m := globalCells[vc]
	if m == nil {
		m = map[*ssa.Global]*Cell{}
		globalCells[vc] = m
	}
	if c, ok := m[g]; ok {
		return c
	}
	c := vc.newCell("g_"+g.Name(), g.Type().(*types.Pointer).Elem())
	m[g] = c
	return c
}

// ---------------------------------------------------------------- loops

func (fr *Frame) loopLabel(li *loopInfo) string { return fmt.Sprintf("loop%d", li.ordinal) }

func (fr *Frame) loopOwner(li *loopInfo) string {
	if li.ownerKey != "" {
		return li.ownerKey
	}
	return fr.key
}

func (fr *Frame) enterLoop(li *loopInfo, live []edgeIn, cond string, cur *State) {
	vc := fr.vc
	b := li.head
	if p := loopPos(b); p.IsValid() {
		vc.curPos = fr.pos(p)
	}
	// 1. initial phi values
	var phis []*ssa.Phi
	for _, in := range b.Instrs {
		phi, ok := in.(*ssa.Phi)
		if !ok {
			break
		}
		phis = append(phis, phi)
		fr.env[phi] = fr.evalPhi(phi, live)
		if phi.Comment == "rangeindex" {
			li.idxPhi = phi
		}
	}
	if li.idxPhi != nil {
		if iff, ok := b.Instrs[len(b.Instrs)-1].(*ssa.If); ok {
			if cmp, ok := iff.Cond.(*ssa.BinOp); ok && cmp.Op == token.LSS {
				if inc, ok := cmp.X.(*ssa.BinOp); ok && inc.Op == token.ADD && inc.X == li.idxPhi {
					if _, defined := fr.env[cmp.Y]; defined {
						li.lenVal = cmp.Y
					} else if _, isConst := cmp.Y.(*ssa.Const); isConst {
						li.lenVal = cmp.Y
					}
				}
			}
		}
	}
	li.entryState = cur.clone()
	li.frame = fr
	// detect map range in header: `next` instruction on a Range value
	for _, in := range b.Instrs {
		if nx, ok := in.(*ssa.Next); ok {
			if rv, ok := fr.env[nx.Iter]; ok && rv.Range != nil {
				li.rng = rv.Range
			}
		}
	}
	// 2. assert invariants on entry
	fr.checkInvariants(li, cond, cur, "inv-init")
	// 3. havoc
	fr.curState = cur
	cells, all := fr.writtenCells(li.body)
	if all {
		for c := range cur.cells {
			cells[c] = true
		}
	}
	partial := fr.lastPartial
	if li.rng != nil {
		if li.rng.Visited != nil {
			cells[li.rng.Visited] = true
		}
		if li.rng.PosCell != nil {
			cells[li.rng.PosCell] = true
		}
	}
	var cl []*Cell
	for c := range cells {
		cl = append(cl, c)
	}
	sort.Slice(cl, func(i, j int) bool { return cl[i].id < cl[j].id })
	var trace0, tlen0 string
	if vc.traceCell != nil && cells[vc.traceCell] {
		trace0, tlen0 = cur.cells[vc.traceCell], cur.cells[vc.tlenCell]
	}
	for _, c := range cl {
		fr.havocCell(cur, c, partial[c])
	}
	if trace0 != "" {
		// automatic invariant of every loop: the effect trace only grows (events are appended, never rewritten)
		nt, nl := cur.cells[vc.traceCell], cur.cells[vc.tlenCell]
		vc.fact(implies(cond, fmt.Sprintf("(>= %s %s)", nl, tlen0)))
		vc.fact(implies(cond, fmt.Sprintf("(forall ((?k Int)) (! (=> (and (<= 0 ?k) (< ?k %s)) (= (select %s ?k) (select %s ?k))) :pattern ((select %s ?k))))", tlen0, nt, trace0, nt)))
	}
	for _, phi := range phis {
		old := fr.env[phi]
		nv := Val{T: phi.Type(), Term: vc.fresh("hv_"+phiName(phi), vc.S.Sort(phi.Type())), Re: old.Re}
		fr.env[phi] = nv
	}
	// 4. assume invariants (automatic ones first)
	if li.idxPhi != nil {
		vc.fact(implies(cond, fr.autoRangeInv(li)))
	}
	if li.rng != nil && li.rng.Visited != nil {
		r := li.rng
		ms := vc.S.Sort(r.Map.T)
		vis := cur.cells[r.Visited]
		vc.fact(implies(cond, fmt.Sprintf("(forall ((?k %s)) (=> (select %s ?k) (and (not %s) %s)))", r.KeySort, vis, mapNil(ms, vc.term(cur, r.Map)), mapHas(ms, vc.term(cur, r.Map), "?k"))))
	}
	fr.assumeInvariants(li, cond, cur)
}

// autoRangeInv is the automatic invariant of a range-over-slice loop: -1 <= idx < len.
func (fr *Frame) autoRangeInv(li *loopInfo) string {
	idx := fr.env[li.idxPhi].Term
	inv := fmt.Sprintf("(>= %s (- 1))", idx)
	if li.lenVal != nil {
		inv = and(inv, fmt.Sprintf("(< %s %s)", idx, fr.val(li.lenVal).Term))
	}
	return inv
}

func phiName(p *ssa.Phi) string {
	if p.Comment != "" {
		return p.Comment
	}
	return p.Name()
}

func (fr *Frame) specEnvAt(st *State, li *loopInfo) *SpecEnv {
	if li != nil && li.ownerFrame != nil && li.ownerFrame != fr {
		env := li.ownerFrame.specEnvAt(st, nil)
		env.loop = li
		return env
	}
	fr.curLoopHead = nil
	if li != nil {
		fr.curLoopHead = li.head
	}
	env := &SpecEnv{vc: fr.vc, fr: fr, st: st, old: fr.top.entry, names: map[string]Val{}, bound: map[string]Val{}, loop: li}
	if fr.fn.Pkg != nil {
		env.pkg = fr.fn.Pkg.Pkg
	} else if fr.fn.Parent() != nil && fr.fn.Parent().Pkg != nil {
		env.pkg = fr.fn.Parent().Pkg.Pkg
	}
	if o := fr.fn.Origin(); o != nil && o.Pkg != nil {
		env.pkg = o.Pkg.Pkg
	}
	return env
}

func (fr *Frame) checkInvariants(li *loopInfo, cond string, st *State, kind string) {
	vc := fr.vc
	if li.idxPhi != nil && kind == "inv-init" {
		vc.oblige(fr.loopOwner(li), fr.loopLabel(li)+":"+kind, "auto-range-index", fr.props, cond, fr.autoRangeInv(li))
	}
	if li.spec == nil {
		return
	}
	for i, c := range li.spec.Invariants {
		env := fr.specEnvAt(st, li)
		ex := c.Expr
		if kind == "inv-preserved" && li.idxPhi != nil {
			// equivalent goal in which the element of the iteration just executed is a ground term
			ex = spec.SplitLastIteration(ex)
		}
		g := env.compileBool(ex)
		label := c.Label
		if label == "" {
			label = fmt.Sprint(i + 1)
		}
		if o := vc.oblige(fr.loopOwner(li), fr.loopLabel(li)+":"+kind, label, clauseProps(c, fr.props), cond, g); o != nil {
			o.Group = c.Group
		}
	}
}

func (fr *Frame) assumeInvariants(li *loopInfo, cond string, st *State) {
	if li.spec == nil {
		return
	}
	for _, c := range li.spec.Invariants {
		env := fr.specEnvAt(st, li)
		g := env.compileBool(c.Expr)
		fr.vc.curGroup = c.Group
		fr.vc.fact(implies(cond, g))
		fr.vc.curGroup = ""
	}
}

func clauseProps(c *spec.Clause, def []string) []string {
	if len(c.Props) > 0 {
		return c.Props
	}
	return def
}

// backEdge is called when control flows along a back edge to header h.
func (fr *Frame) backEdge(from, h *ssa.BasicBlock, cond string, st *State) {
	li := fr.loops[h]
	vc := fr.vc
	// bind phis to their back-edge values in a temporary env
	saved := map[*ssa.Phi]Val{}
	idx := -1
	for i, p := range h.Preds {
		if p == from {
			idx = i
		}
	}
	for _, in := range h.Instrs {
		phi, ok := in.(*ssa.Phi)
		if !ok {
			break
		}
		saved[phi] = fr.env[phi]
	}
	newVals := map[*ssa.Phi]Val{}
	for phi := range saved {
		newVals[phi] = fr.val(phi.Edges[idx])
	}
	for phi, v := range newVals {
		if v.Obj != nil || v.Loc != nil {
			v = Val{T: v.T, Term: vc.term(st, v)}
		}
		fr.env[phi] = v
	}
	if p := loopPos(h); p.IsValid() {
		vc.curPos = fr.pos(p)
	}
	if li.idxPhi != nil {
		vc.oblige(fr.loopOwner(li), fr.loopLabel(li)+":inv-preserved", "auto-range-index", fr.props, cond, fr.autoRangeInv(li))
	}
	fr.checkInvariants(li, cond, st, "inv-preserved")
	for phi, v := range saved {
		fr.env[phi] = v
	}
}

// havocCell replaces the content of c by an arbitrary value; if only some top-level
// struct fields of c can have been written, the other fields keep their value.
func (fr *Frame) havocCell(st *State, c *Cell, fields map[int]bool) {
	vc := fr.vc
	if c.T != nil && fields != nil && !fields[-1] {
		if stt := structOf(c.T); stt != nil {
			cur, ok := st.cells[c]
			if ok {
				cur = vc.define("pre_"+c.Name, vc.cellSort(c), cur)
				for i := 0; i < stt.NumFields(); i++ {
					if fields[i] {
						ft := stt.Field(i).Type()
						cur = vc.writePath(cur, []Step{{Kind: StepField, T: c.T, Field: i}}, vc.fresh("hv_"+c.Name+"_"+stt.Field(i).Name(), vc.S.Sort(ft)))
					}
				}
				st.cells[c] = cur
				return
			}
		}
	}
	st.cells[c] = vc.fresh("hv_"+c.Name, vc.cellSort(c))
	delete(st.ptrs, c)
}

// writtenCells computes the cells possibly written by the given blocks. As a side
// result fr.lastPartial records, per cell, which top-level fields are written
// (-1 = the whole cell).
func (fr *Frame) writtenCells(blocks map[*ssa.BasicBlock]bool) (map[*Cell]bool, bool) {
	out := map[*Cell]bool{}
	all := false
	var bl []*ssa.BasicBlock
	for b := range blocks {
		bl = append(bl, b)
	}
	fr.lastPartial = map[*Cell]map[int]bool{}
	fr.collectWrites(bl, fr.env, nil, out, &all, 0)
	return out, all
}

// throughPointerLoad reports whether addr is reached by dereferencing a pointer that was itself loaded from memory.
func throughPointerLoad(addr ssa.Value) bool {
	for d := 0; d < 20; d++ {
		switch x := addr.(type) {
		case *ssa.FieldAddr:
			addr = x.X
		case *ssa.IndexAddr:
			addr = x.X
		case *ssa.Slice:
			addr = x.X
		case *ssa.ChangeType:
			addr = x.X
		case *ssa.UnOp:
			if x.Op == token.MUL {
				if _, isPtr := x.Type().Underlying().(*types.Pointer); isPtr {
					return true
				}
				addr = x.X
				continue
			}
			return false
		default:
			return false
		}
	}
	return false
}

// firstField returns the top-level field through which addr reaches into its root, or -1.
func firstField(addr ssa.Value) int {
	field := -1
	for d := 0; d < 20; d++ {
		switch x := addr.(type) {
		case *ssa.FieldAddr:
			field = x.Field
			switch xx := x.X.(type) {
			case *ssa.Parameter, *ssa.Alloc, *ssa.FreeVar, *ssa.Global:
				return field
			case *ssa.UnOp:
				// a field of the struct a captured pointer variable points to
				if xx.Op == token.MUL {
					if _, isPtr := xx.Type().Underlying().(*types.Pointer); isPtr {
						switch xx.X.(type) {
						case *ssa.Parameter, *ssa.Alloc, *ssa.FreeVar, *ssa.Global:
							return field
						}
					}
				}
			}
			addr = x.X
		case *ssa.IndexAddr:
			addr = x.X
		case *ssa.UnOp:
			addr = x.X
		case *ssa.Slice:
			addr = x.X
		case *ssa.ChangeType:
			addr = x.X
		default:
			return -1
		}
	}
	return -1
}

// rootsOf walks an address/reference expression back to its root values.
func rootsOf(v ssa.Value, acc *[]ssa.Value, depth int) {
	if depth > 20 {
		return
	}
	switch x := v.(type) {
	case *ssa.FieldAddr:
		rootsOf(x.X, acc, depth+1)
	case *ssa.IndexAddr:
		rootsOf(x.X, acc, depth+1)
	case *ssa.UnOp:
		if x.Op == token.MUL {
			rootsOf(x.X, acc, depth+1)
		} else {
			*acc = append(*acc, v)
		}
	case *ssa.Slice:
		rootsOf(x.X, acc, depth+1)
	case *ssa.ChangeType:
		rootsOf(x.X, acc, depth+1)
	case *ssa.Phi:
		*acc = append(*acc, v)
		for _, e := range x.Edges {
			if e != v {
				if _, isPhi := e.(*ssa.Phi); !isPhi {
					rootsOf(e, acc, depth+1)
				}
			}
		}
	default:
		*acc = append(*acc, v)
	}
}

func (fr *Frame) collectWrites(blocks []*ssa.BasicBlock, env map[ssa.Value]Val, fv map[*ssa.FreeVar]Val, out map[*Cell]bool, all *bool, depth int) {
	if depth > 5 {
		*all = true
		return
	}
	mark := func(v ssa.Value) {
		var roots []ssa.Value
		rootsOf(v, &roots, 0)
		ff := firstField(v)
		viaPtr := throughPointerLoad(v)
		if len(roots) != 1 || depth > 0 {
			ff = -1
		}
		note := func(c *Cell) {
			if fr.lastPartial == nil {
				fr.lastPartial = map[*Cell]map[int]bool{}
			}
			if fr.lastPartial[c] == nil {
				fr.lastPartial[c] = map[int]bool{}
			}
			fr.lastPartial[c][ff] = true
		}
		for _, r := range roots {
			var val Val
			var ok bool
			if f, isFV := r.(*ssa.FreeVar); isFV && fv != nil {
				val, ok = fv[f]
			} else if g, isG := r.(*ssa.Global); isG {
				val, ok = Val{Loc: &Loc{Cell: fr.vc.W.globalCell(fr.vc, g)}}, true
			} else {
				val, ok = env[r]
			}
			if !ok {
				continue // defined inside the region: fresh per iteration
			}
			if val.Loc != nil && viaPtr && len(val.Loc.Path) == 0 && fr.curState != nil {
				// the store goes through a pointer held in this cell (a captured pointer variable): what is
				// written is the pointee, if we know which cell that is
				if pv, ok := fr.curState.ptrs[val.Loc.Cell]; ok && pv.Loc != nil {
					out[pv.Loc.Cell] = true
					if len(pv.Loc.Path) != 0 {
						ff = -1
					}
					note(pv.Loc.Cell)
					continue
				}
			}
			if val.Loc != nil {
				out[val.Loc.Cell] = true
				if len(val.Loc.Path) == 0 {
					note(val.Loc.Cell)
				} else {
					ff = -1
					note(val.Loc.Cell)
				}
			}
			if val.Obj != nil {
				out[val.Obj] = true
				ff = -1
				note(val.Obj)
			}
			if val.Home != nil {
				out[val.Home.Cell] = true
				ff = -1
				note(val.Home.Cell)
			}
		}
	}
	for _, b := range blocks {
		for _, in := range b.Instrs {
			switch in := in.(type) {
			case *ssa.Store:
				mark(in.Addr)
			case *ssa.MapUpdate:
				mark(in.Map)
			case *ssa.Defer:
				fr.callWrites(&in.Call, env, fv, out, all, depth, mark)
			case *ssa.Call:
				fr.callWrites(&in.Call, env, fv, out, all, depth, mark)
			}
		}
	}
}

func refLike(t types.Type) bool {
	switch t.Underlying().(type) {
	case *types.Pointer, *types.Slice, *types.Map, *types.Signature, *types.Interface:
		return true
	}
	return false
}

func (fr *Frame) callWrites(c *ssa.CallCommon, env map[ssa.Value]Val, fv map[*ssa.FreeVar]Val, out map[*Cell]bool, all *bool, depth int, mark func(ssa.Value)) {
	vc := fr.vc
	if bi, ok := c.Value.(*ssa.Builtin); ok {
		if bi.Name() == "copy" {
			mark(c.Args[0])
		}
		return
	}
	// closures we will inline: analyse their bodies
	inlineClosure := func(v ssa.Value) bool {
		mc, ok := v.(*ssa.MakeClosure)
		if !ok {
			if f, ok := v.(*ssa.Function); ok && IsRepo(f) && f.Blocks != nil && f.Parent() != nil {
				fr.collectWrites(f.Blocks, map[ssa.Value]Val{}, nil, out, all, depth+1)
				return true
			}
			return false
		}
		f := mc.Fn.(*ssa.Function)
		m := map[*ssa.FreeVar]Val{}
		for i, fvv := range f.FreeVars {
			bv := mc.Bindings[i]
			if bfv, isFV := bv.(*ssa.FreeVar); isFV && fv != nil {
				m[fvv] = fv[bfv]
			} else {
				m[fvv] = env[bv]
			}
		}
		fr.collectWrites(f.Blocks, map[ssa.Value]Val{}, m, out, all, depth+1)
		return true
	}
	markTrace := func() {
		if vc.traceCell != nil {
			out[vc.traceCell] = true
			out[vc.tlenCell] = true
		}
	}
	callee := c.StaticCallee()
	if c.IsInvoke() {
		if n, ok := types.Unalias(c.Value.Type()).(*types.Named); ok && n.Obj().Pkg() != nil {
			key := shortPath(n.Obj().Pkg().Path()) + ":" + n.Obj().Name() + "." + c.Method.Name()
			if !inRepoPath(n.Obj().Pkg().Path()) {
				key = n.Obj().Pkg().Path() + "." + n.Obj().Name() + "." + c.Method.Name()
			}
			if sp, ok := vc.W.Specs[key]; ok {
				if sp.Effect {
					markTrace()
				}
				for _, m := range sp.Modifies {
					name := rootIdent(m)
					names := []string{"self"}
					if len(sp.Params) > 0 {
						for _, p := range sp.Params {
							names = append(names, p.Name)
						}
					} else {
						ps := c.Signature().Params()
						for i := 0; i < ps.Len(); i++ {
							names = append(names, ps.At(i).Name())
						}
					}
					for i, pn := range names {
						if pn == name && i >= 1 && i-1 < len(c.Args) {
							mark(c.Args[i-1])
						}
					}
				}
				return
			}
		}
		// interface method: governed by the interface contract; without one, reference arguments may be written
		for _, a := range c.Args {
			if pa := pointerArg(a); pa != nil {
				mark(pa)
			}
		}
		return
	}
	if callee == nil {
		if inlineClosure(c.Value) {
			return
		}
		for _, a := range c.Args {
			if pa := pointerArg(a); pa != nil {
				mark(pa)
			}
		}
		return
	}
	if isMapsIterate(callee) {
		if !inlineClosure(c.Args[1]) {
			*all = true
		}
		return
	}
	if callee.Parent() != nil || (len(c.Args) == 0 && callee.Signature.Recv() == nil && callee.Synthetic == "") {
		if _, isMC := c.Value.(*ssa.MakeClosure); isMC {
			inlineClosure(c.Value)
			return
		}
	}
	sp := vc.W.SpecFor(callee)
	if sp != nil {
		if sp.Inline && callee.Blocks != nil {
			fr.collectWrites(callee.Blocks, map[ssa.Value]Val{}, nil, out, all, depth+1)
			// conservative: pointer args may be written by an inlined callee
			for _, a := range c.Args {
				if pa := pointerArg(a); pa != nil {
					mark(pa)
				}
			}
			return
		}
		if sp.Effect || (!sp.Pure && vc.W.BodyMayEffect(callee)) {
			markTrace()
		}
		// only what `modifies` names: map the root identifier of each modifies expr to an argument
		for _, m := range sp.Modifies {
			name := rootIdent(m)
			if _, isGhost := vc.W.Ghosts[name]; isGhost && vc.ghostCells != nil {
				if gc, ok := vc.ghostCells[name]; ok {
					out[gc] = true
				}
			}
			for i, p := range calleeParamNames(callee, sp) {
				if (p == name || p == vc.W.renamed(callee, name)) && i < len(c.Args) {
					mark(c.Args[i])
				}
			}
		}
		return
	}
	if sp == nil && !IsRepo(callee) && vc.W.pureExternal(callee) {
		return
	}
	// unknown callee: pointer arguments may be written
	if vc.W.MayEffect(callee) {
		markTrace()
	}
	for _, a := range c.Args {
		if pa := pointerArg(a); pa != nil {
			mark(pa)
		}
	}
	if mc, ok := c.Value.(*ssa.MakeClosure); ok {
		for _, b := range mc.Bindings {
			mark(b)
		}
	}
}

// pointerArg: the pointer a call argument hands to the callee - the argument itself, or the pointer boxed in an
// interface value (f(&x) where f takes `any`, e.g. yaml.Unmarshal or a decode callback).
func pointerArg(a ssa.Value) ssa.Value {
	if _, isPtr := a.Type().Underlying().(*types.Pointer); isPtr {
		return a
	}
	if mi, ok := a.(*ssa.MakeInterface); ok {
		if _, isPtr := mi.X.Type().Underlying().(*types.Pointer); isPtr {
			return mi.X
		}
	}
	return nil
}

func rootIdent(e spec.Expr) string {
	for {
		switch x := e.(type) {
		case *spec.Ident:
			return x.Name
		case *spec.Select:
			e = x.X
		case *spec.Index:
			e = x.X
		case *spec.Unary:
			e = x.X
		case *spec.SliceE:
			e = x.X
		default:
			return ""
		}
	}
}

func calleeParamNames(f *ssa.Function, sp *spec.FuncSpec) []string {
	var out []string
	if sp != nil && sp.NoBody && len(sp.Params) == 0 {
		// assumed contract without a parameter list: the receiver is `self`, parameters keep their declared names
		if f.Signature.Recv() != nil {
			out = append(out, "self")
		}
		ps := f.Signature.Params()
		for i := 0; i < ps.Len(); i++ {
			out = append(out, ps.At(i).Name())
		}
		return out
	}
	if sp != nil && len(sp.Params) > 0 {
		if f.Signature.Recv() != nil {
			out = append(out, "self")
		}
		for _, p := range sp.Params {
			out = append(out, p.Name)
		}
		return out
	}
	if f.Blocks != nil {
		for _, p := range f.Params {
			out = append(out, p.Name())
		}
		return out
	}
	if r := f.Signature.Recv(); r != nil {
		out = append(out, r.Name())
	}
	ps := f.Signature.Params()
	for i := 0; i < ps.Len(); i++ {
		out = append(out, ps.At(i).Name())
	}
	return out
}

// ---------------------------------------------------------------- blocks and instructions

func (fr *Frame) execBlock(b *ssa.BasicBlock, cond string, st *State) {
	vc := fr.vc
	for i, in := range b.Instrs {
		fr.curIdx = i
		if p := in.Pos(); p.IsValid() {
			vc.curPos = fr.pos(p)
		}
		switch in := in.(type) {
		case *ssa.Phi:
			// handled at block entry
		case *ssa.DebugRef:
			fr.noteDebugRef(in)
		case *ssa.If:
			c := vc.term(st, fr.val(in.Cond))
			fr.flow(b, b.Succs[0], and(cond, c), st)
			fr.flow(b, b.Succs[1], and(cond, not(c)), st)
			return
		case *ssa.Jump:
			fr.flow(b, b.Succs[0], cond, st)
			return
		case *ssa.Return:
			var vals []Val
			for _, r := range in.Results {
				v := fr.val(r)
				if v.Obj != nil || v.Loc != nil {
					v = Val{T: v.T, Term: vc.term(st, v), Re: v.Re}
				}
				vals = append(vals, v)
			}
			fr.rets = append(fr.rets, retInfo{cond, st, vals})
			return
		case *ssa.Panic:
			vc.oblige(fr.top.oname(), "safe:panic", fr.siteLabel(), fr.top.props, cond, "false")
			return
		case *ssa.RunDefers:
			fr.runDefers(cond, st)
		case *ssa.Defer:
			fr.defers = append(fr.defers, deferred{cond, &in.Call, fr})
		case *ssa.Store:
			fr.execStore(in, cond, st)
		case *ssa.MapUpdate:
			fr.execMapUpdate(in, cond, st)
		case *ssa.Go, *ssa.Send, *ssa.Select:
			vc.outside("concurrency instruction %T", in)
		case ssa.Value:
			fr.env[in] = fr.execValue(in, cond, st)
		default:
			vc.outside("unsupported instruction %T", in)
		}
	}
}

// siteLabel names an instruction site stably: <fn-local ordinal of that kind> is
// avoided; we use the source line-independent "b<block>i<idx>" only as a fallback.
func (fr *Frame) siteLabel() string {
	return fmt.Sprintf("%s.b%d", shortKey(fr.key), fr.curBlock.Index)
}

func shortKey(k string) string {
	if i := strings.Index(k, ":"); i >= 0 {
		return k[i+1:]
	}
	return k
}

func (fr *Frame) flow(from, to *ssa.BasicBlock, cond string, st *State) {
	if cond == "false" {
		return
	}
	if fr.back[[2]*ssa.BasicBlock{from, to}] {
		fr.backEdge(from, to, cond, st)
		return
	}
	fr.in[to] = append(fr.in[to], edgeIn{from, cond, st.clone()})
}

func (fr *Frame) runDefers(cond string, st *State) {
	vc := fr.vc
	for i := len(fr.defers) - 1; i >= 0; i-- {
		d := fr.defers[i]
		c := and(cond, d.cond)
		if c == "false" {
			continue
		}
		before := st.clone()
		fr.execCall(d.call, nil, c, st)
		// effects apply only if the defer was registered on this path
		if d.cond != "true" && d.cond != cond {
			for cell, nv := range st.cells {
				ov, ok := before.cells[cell]
				if ok && ov != nv {
					st.cells[cell] = ite(d.cond, nv, ov)
				}
			}
		}
		_ = vc
	}
}

func (fr *Frame) execStore(in *ssa.Store, cond string, st *State) {
	vc := fr.vc
	addr := fr.val(in.Addr)
	v := fr.val(in.Val)
	if addr.Loc == nil && addr.Home == nil {
		if _, ok := addr.T.Underlying().(*types.Pointer); ok && addr.Term != "" {
			vc.outside("store through a value pointer without location in %s", fr.key)
			return
		}
	}
	if n := vc.ptrNil(addr); n != "false" {
		vc.oblige(fr.top.oname(), "safe:nil-deref", fr.siteLabel(), fr.top.props, cond, not(n))
	}
	loc := vc.ptrLoc(st, addr)
	vc.store(st, loc, vc.term(st, v))
	if v.Loc != nil && len(loc.Path) == 0 {
		st.ptrs[loc.Cell] = v
	}
}

func (fr *Frame) execMapUpdate(in *ssa.MapUpdate, cond string, st *State) {
	vc := fr.vc
	m := fr.val(in.Map)
	k := vc.term(st, fr.val(in.Key))
	v := vc.term(st, fr.val(in.Value))
	ms := vc.S.Sort(m.T)
	cur := vc.term(st, m)
	vc.oblige(fr.top.oname(), "safe:nil-map-write", fr.siteLabel(), fr.top.props, cond, not(mapNil(ms, cur)))
	nv := mkMap(ms, fmt.Sprintf("(store %s %s true)", mapDom(ms, cur), k), fmt.Sprintf("(store %s %s %s)", mapVal(ms, cur), k, v), "false")
	switch {
	case m.Obj != nil:
		vc.store(st, &Loc{Cell: m.Obj}, nv)
	case m.Home != nil:
		vc.store(st, m.Home, nv)
	default:
		vc.outside("map update on a map value without identity in %s", fr.key)
	}
}

// ensureObj gives a slice/map value an identity cell so that in-place writes are visible to later reads.
func (fr *Frame) ensureObj(v Val, st *State, name string) Val {
	if v.Obj != nil {
		return v
	}
	c := fr.vc.newCell(name, v.T)
	st.cells[c] = fr.vc.term(st, v)
	return Val{T: v.T, Obj: c, Re: v.Re}
}

func (fr *Frame) execValue(in ssa.Value, cond string, st *State) Val {
	vc := fr.vc
	v := fr.execValue1(in, cond, st)
	// slices that are written in place must have an identity
	if fr.mutated[in] && v.Obj == nil && v.Home == nil {
		if _, ok := in.Type().Underlying().(*types.Slice); ok {
			v = fr.ensureObj(v, st, in.Name())
		}
	}
	_ = vc
	return v
}

func (fr *Frame) execValue1(in ssa.Value, cond string, st *State) Val {
	vc := fr.vc
	switch in := in.(type) {
	case *ssa.Alloc:
		t := in.Type().(*types.Pointer).Elem()
		name := in.Comment
		if name == "" {
			name = in.Name()
		}
		c := vc.newCell(name, t)
		st.cells[c] = vc.S.Zero(t)
		return Val{T: in.Type(), Loc: &Loc{Cell: c}, Nil: "false"}
	case *ssa.BinOp:
		return fr.execBinOp(in, cond, st)
	case *ssa.UnOp:
		return fr.execUnOp(in, cond, st)
	case *ssa.Call:
		return fr.execCall(&in.Call, in, cond, st)
	case *ssa.ChangeInterface:
		x := fr.val(in.X)
		return fr.convertIface(x, in.Type(), st)
	case *ssa.ChangeType:
		x := fr.val(in.X)
		from, to := vc.S.Sort(in.X.Type()), vc.S.Sort(in.Type())
		if from != to {
			if structOf(in.X.Type()) != nil && structOf(in.Type()) != nil {
				// struct conversion between named types with identical underlying type
				s := structOf(in.X.Type())
				var fs []string
				xt := vc.term(st, x)
				for i := 0; i < s.NumFields(); i++ {
					fs = append(fs, fmt.Sprintf("(%s %s)", fieldSel(from, s.Field(i).Name()), xt))
				}
				if len(fs) == 0 {
					return Val{T: in.Type(), Term: "mk_" + to}
				}
				return Val{T: in.Type(), Term: "(mk_" + to + " " + strings.Join(fs, " ") + ")"}
			}
			vc.outside("ChangeType between different sorts %s -> %s", from, to)
		}
		x.T = in.Type()
		return x
	case *ssa.Convert:
		return fr.execConvert(in, st)
	case *ssa.Extract:
		t := fr.val(in.Tuple)
		if in.Index < len(t.Tuple) {
			return t.Tuple[in.Index]
		}
		vc.outside("extract from non-tuple in %s", fr.key)
		return Val{T: in.Type(), Term: vc.fresh("ext", vc.S.Sort(in.Type()))}
	case *ssa.Field:
		x := fr.val(in.X)
		srt := vc.S.Sort(in.X.Type())
		s := structOf(in.X.Type())
		return Val{T: in.Type(), Term: fmt.Sprintf("(%s %s)", fieldSel(srt, s.Field(in.Field).Name()), vc.term(st, x))}
	case *ssa.FieldAddr:
		x := fr.val(in.X)
		if n := vc.ptrNil(x); n != "false" {
			vc.oblige(fr.top.oname(), "safe:nil-deref", fr.siteLabel(), fr.top.props, cond, not(n))
		}
		loc := vc.ptrLoc(st, x)
		pt := in.X.Type().Underlying().(*types.Pointer).Elem()
		return Val{T: in.Type(), Loc: loc.extend(Step{Kind: StepField, T: pt, Field: in.Field}), Nil: "false"}
	case *ssa.IndexAddr:
		x := fr.val(in.X)
		idx := vc.term(st, fr.val(in.Index))
		switch xt := in.X.Type().Underlying().(type) {
		case *types.Slice:
			srt := vc.S.Sort(xt)
			cur := vc.term(st, x)
			vc.oblige(fr.top.oname(), "safe:index", fr.siteLabel(), fr.top.props, cond, and(fmt.Sprintf("(<= 0 %s)", idx), fmt.Sprintf("(< %s %s)", idx, vc.sliceLen(srt, cur))))
			var base *Loc
			switch {
			case x.Obj != nil:
				base = &Loc{Cell: x.Obj}
			case x.Home != nil:
				base = x.Home
			default:
				c := vc.newCell("tmpslice", xt)
				st.cells[c] = cur
				base = &Loc{Cell: c}
			}
			return Val{T: in.Type(), Loc: base.extend(Step{Kind: StepIndex, T: xt, Idx: idx}), Nil: "false"}
		case *types.Pointer: // pointer to array
			at := xt.Elem().Underlying().(*types.Array)
			vc.oblige(fr.top.oname(), "safe:index", fr.siteLabel(), fr.top.props, cond, and(fmt.Sprintf("(<= 0 %s)", idx), fmt.Sprintf("(< %s %d)", idx, at.Len())))
			loc := vc.ptrLoc(st, x)
			return Val{T: in.Type(), Loc: loc.extend(Step{Kind: StepIndex, T: at, Idx: idx}), Nil: "false"}
		}
		vc.outside("IndexAddr on %s", in.X.Type())
	case *ssa.Index:
		x := fr.val(in.X)
		idx := vc.term(st, fr.val(in.Index))
		if isString(in.X.Type()) {
			s := vc.term(st, x)
			vc.oblige(fr.top.oname(), "safe:index", fr.siteLabel(), fr.top.props, cond, and(fmt.Sprintf("(<= 0 %s)", idx), fmt.Sprintf("(< %s (str.len %s))", idx, s)))
			return Val{T: in.Type(), Term: fmt.Sprintf("(str.to_code (str.at %s %s))", s, idx)}
		}
		if at, ok := in.X.Type().Underlying().(*types.Array); ok {
			srt := vc.S.Sort(at)
			vc.oblige(fr.top.oname(), "safe:index", fr.siteLabel(), fr.top.props, cond, and(fmt.Sprintf("(<= 0 %s)", idx), fmt.Sprintf("(< %s %d)", idx, at.Len())))
			return Val{T: in.Type(), Term: sliceAt(srt, vc.term(st, x), idx)}
		}
		vc.outside("Index on %s", in.X.Type())
	case *ssa.Lookup:
		return fr.execLookup(in, cond, st)
	case *ssa.MakeClosure:
		f := in.Fn.(*ssa.Function)
		var bs []Val
		for _, b := range in.Bindings {
			bs = append(bs, fr.val(b))
		}
		return Val{T: in.Type(), Clo: &Closure{Fn: f, Bindings: bs}}
	case *ssa.MakeInterface:
		return fr.makeInterface(fr.val(in.X), in.X.Type(), in.Type(), st)
	case *ssa.MakeMap:
		c := vc.newCell(in.Name(), in.Type())
		mt := in.Type().Underlying().(*types.Map)
		ms := vc.S.Sort(in.Type())
		k, v := vc.S.Sort(mt.Key()), vc.S.Sort(mt.Elem())
		st.cells[c] = mkMap(ms, fmt.Sprintf("((as const (Array %s Bool)) false)", k), vc.S.ConstArray(k, v, vc.S.Zero(mt.Elem())), "false")
		return Val{T: in.Type(), Obj: c}
	case *ssa.MakeSlice:
		stt := in.Type().Underlying().(*types.Slice)
		srt := vc.S.Sort(in.Type())
		ln := vc.term(st, fr.val(in.Len))
		vc.oblige(fr.top.oname(), "safe:makeslice-len", fr.siteLabel(), fr.top.props, cond, fmt.Sprintf("(>= %s 0)", ln))
		e := vc.S.Sort(stt.Elem())
		term := mkSlice(srt, vc.S.ConstArray("Int", e, vc.S.Zero(stt.Elem())), ln, "false")
		c := vc.newCell(in.Name(), in.Type())
		st.cells[c] = term
		return Val{T: in.Type(), Obj: c}
	case *ssa.Next:
		return fr.execNext(in, cond, st)
	case *ssa.Phi:
		return fr.env[in]
	case *ssa.Range:
		return fr.execRange(in, st)
	case *ssa.Slice:
		return fr.execSlice(in, cond, st)
	case *ssa.TypeAssert:
		return fr.execTypeAssert(in, cond, st)
	}
	vc.outside("unsupported value instruction %T in %s", in, fr.key)
	return Val{T: in.Type(), Term: vc.fresh("unk", vc.S.Sort(in.Type()))}
}

func isString(t types.Type) bool {
	if tp, ok := types.Unalias(t).(*types.TypeParam); ok {
		return typeParamIsString(tp)
	}
	b, ok := t.Underlying().(*types.Basic)
	return ok && b.Info()&types.IsString != 0
}

func isInteger(t types.Type) bool {
	b, ok := t.Underlying().(*types.Basic)
	return ok && b.Info()&types.IsInteger != 0
}

func (fr *Frame) execBinOp(in *ssa.BinOp, cond string, st *State) Val {
	vc := fr.vc
	x, y := fr.val(in.X), fr.val(in.Y)
	t := in.X.Type()
	switch in.Op {
	case token.EQL, token.NEQ:
		var e string
		switch t.Underlying().(type) {
		case *types.Pointer:
			if isNilConst(in.Y) {
				e = vc.ptrNil(x)
			} else if isNilConst(in.X) {
				e = vc.ptrNil(y)
			} else {
				vc.outside("pointer comparison other than with nil in %s", fr.key)
				e = vc.fresh("ptreq", "Bool")
			}
		case *types.Slice:
			srt := vc.S.Sort(t)
			if isNilConst(in.Y) {
				e = sliceNil(srt, vc.term(st, x))
			} else {
				e = sliceNil(srt, vc.term(st, y))
			}
		case *types.Map:
			srt := vc.S.Sort(t)
			if isNilConst(in.Y) {
				e = mapNil(srt, vc.term(st, x))
			} else {
				e = mapNil(srt, vc.term(st, y))
			}
		case *types.Signature:
			e = vc.fresh("fneq", "Bool")
		default:
			e = eq(vc.term(st, x), vc.term(st, y))
		}
		if in.Op == token.NEQ {
			e = not(e)
		}
		return Val{T: in.Type(), Term: e}
	}
	a, b := vc.term(st, x), vc.term(st, y)
	if isString(t) {
		switch in.Op {
		case token.ADD:
			return Val{T: in.Type(), Term: fmt.Sprintf("(str.++ %s %s)", a, b)}
		case token.LSS:
			return Val{T: in.Type(), Term: fmt.Sprintf("(str.< %s %s)", a, b)}
		case token.LEQ:
			return Val{T: in.Type(), Term: fmt.Sprintf("(str.<= %s %s)", a, b)}
		case token.GTR:
			return Val{T: in.Type(), Term: fmt.Sprintf("(str.< %s %s)", b, a)}
		case token.GEQ:
			return Val{T: in.Type(), Term: fmt.Sprintf("(str.<= %s %s)", b, a)}
		}
	}
	if bt, ok := t.Underlying().(*types.Basic); ok && bt.Info()&types.IsBoolean != 0 {
		switch in.Op {
		case token.AND, token.LAND:
			return Val{T: in.Type(), Term: and(a, b)}
		case token.OR, token.LOR:
			return Val{T: in.Type(), Term: or(a, b)}
		}
	}
	if isInteger(t) {
		op := map[token.Token]string{token.ADD: "+", token.SUB: "-", token.MUL: "*", token.LSS: "<", token.LEQ: "<=", token.GTR: ">", token.GEQ: ">="}[in.Op]
		switch in.Op {
		case token.ADD, token.SUB, token.MUL:
			r := fmt.Sprintf("(%s %s %s)", op, a, b)
			// A1: mathematical integers with an explicit no-overflow obligation,
			// except for the compiler-generated range index increment.
			if !fr.isRangeIndexInc(in) {
				lo, hi := intBounds(t)
				vc.oblige(fr.top.oname(), "safe:overflow", fr.siteLabel(), fr.top.props, cond, fmt.Sprintf("(and (<= %s %s) (<= %s %s))", lo, r, r, hi))
			}
			return Val{T: in.Type(), Term: r}
		case token.LSS, token.LEQ, token.GTR, token.GEQ:
			return Val{T: in.Type(), Term: fmt.Sprintf("(%s %s %s)", op, a, b)}
		case token.QUO:
			vc.oblige(fr.top.oname(), "safe:div-zero", fr.siteLabel(), fr.top.props, cond, not(eq(b, "0")))
			return Val{T: in.Type(), Term: fmt.Sprintf("(div %s %s)", a, b)}
		case token.REM:
			vc.oblige(fr.top.oname(), "safe:div-zero", fr.siteLabel(), fr.top.props, cond, not(eq(b, "0")))
			return Val{T: in.Type(), Term: fmt.Sprintf("(mod %s %s)", a, b)}
		}
	}
	vc.outside("binary operator %s on %s in %s", in.Op, t, fr.key)
	return Val{T: in.Type(), Term: vc.fresh("binop", vc.S.Sort(in.Type()))}
}

func intBounds(t types.Type) (string, string) {
	b, _ := t.Underlying().(*types.Basic)
	if b != nil && b.Info()&types.IsUnsigned != 0 {
		return "0", "18446744073709551615"
	}
	return "(- 9223372036854775808)", "9223372036854775807"
}

func (fr *Frame) isRangeIndexInc(in *ssa.BinOp) bool {
	if phi, ok := in.X.(*ssa.Phi); ok && phi.Comment == "rangeindex" {
		return true
	}
	return false
}

func isNilConst(v ssa.Value) bool {
	c, ok := v.(*ssa.Const)
	return ok && c.Value == nil
}

func (fr *Frame) execUnOp(in *ssa.UnOp, cond string, st *State) Val {
	vc := fr.vc
	x := fr.val(in.X)
	switch in.Op {
	case token.MUL: // load
		if g, ok := in.X.(*ssa.Global); ok {
			if pat, ok := vc.W.Regexes[g]; ok {
				p := pat
				return Val{T: in.Type(), Re: &p, Term: "0"}
			}
			if fn, ok := vc.W.FuncGlobals[g]; ok {
				return Val{T: in.Type(), Clo: &Closure{Fn: fn}}
			}
		}
		if n := vc.ptrNil(x); n != "false" {
			vc.oblige(fr.top.oname(), "safe:nil-deref", fr.siteLabel(), fr.top.props, cond, not(n))
		}
		loc := vc.ptrLoc(st, x)
		if len(loc.Path) == 0 {
			if pv, ok := st.ptrs[loc.Cell]; ok {
				pv.T = in.Type()
				return pv
			}
		}
		term := vc.load(st, loc)
		out := Val{T: in.Type(), Term: term}
		switch in.Type().Underlying().(type) {
		case *types.Slice, *types.Map, *types.Pointer:
			out.Home = loc
		}
		return out
	case token.NOT:
		return Val{T: in.Type(), Term: not(vc.term(st, x))}
	case token.SUB:
		return Val{T: in.Type(), Term: fmt.Sprintf("(- %s)", vc.term(st, x))}
	}
	vc.outside("unary operator %s in %s", in.Op, fr.key)
	return Val{T: in.Type(), Term: vc.fresh("unop", vc.S.Sort(in.Type()))}
}

func (fr *Frame) execLookup(in *ssa.Lookup, cond string, st *State) Val {
	vc := fr.vc
	x := fr.val(in.X)
	k := vc.term(st, fr.val(in.Index))
	if isString(in.X.Type()) {
		s := vc.term(st, x)
		vc.oblige(fr.top.oname(), "safe:index", fr.siteLabel(), fr.top.props, cond, and(fmt.Sprintf("(<= 0 %s)", k), fmt.Sprintf("(< %s (str.len %s))", k, s)))
		return Val{T: in.Type(), Term: fmt.Sprintf("(str.to_code (str.at %s %s))", s, k)}
	}
	mt := in.X.Type().Underlying().(*types.Map)
	ms := vc.S.Sort(in.X.Type())
	m := vc.term(st, x)
	has := and(not(mapNil(ms, m)), mapHas(ms, m, k))
	v := ite(has, mapGet(ms, m, k), vc.S.Zero(mt.Elem()))
	if in.CommaOk {
		return Val{T: in.Type(), Tuple: []Val{{T: mt.Elem(), Term: v}, {T: types.Typ[types.Bool], Term: has}}}
	}
	return Val{T: in.Type(), Term: v}
}

func (fr *Frame) execRange(in *ssa.Range, st *State) Val {
	vc := fr.vc
	x := fr.val(in.X)
	if isString(in.X.Type()) {
		c := vc.newCell("strpos", types.Typ[types.Int])
		st.cells[c] = "0"
		return Val{T: in.Type(), Range: &RangeState{IsStr: true, Str: vc.term(st, x), PosCell: c}}
	}
	mt := in.X.Type().Underlying().(*types.Map)
	ks := vc.S.Sort(mt.Key())
	c := &Cell{Name: "visited", Sort: fmt.Sprintf("(Array %s Bool)", ks)}
	vc.n++
	c.id = vc.n
	st.cells[c] = fmt.Sprintf("((as const (Array %s Bool)) false)", ks)
	snap := Val{T: x.T, Term: vc.term(st, x)}
	if vc.W.RangeNeedsInjective[in] {
		ms := vc.S.Sort(x.T)
		vc.oblige(fr.top.oname(), "order", "injective-values", append([]string{"C08"}, fr.top.props...), fr.blockCond[fr.curBlock],
			fmt.Sprintf("(forall ((?a %s) (?b %s)) (=> (and %s %s (not (= ?a ?b))) (not (= %s %s))))", ks, ks, mapHas(ms, snap.Term, "?a"), mapHas(ms, snap.Term, "?b"), mapGet(ms, snap.Term, "?a"), mapGet(ms, snap.Term, "?b")))
	}
	return Val{T: in.Type(), Range: &RangeState{Map: snap, Visited: c, KeySort: ks}}
}

func (fr *Frame) execNext(in *ssa.Next, cond string, st *State) Val {
	vc := fr.vc
	r := fr.val(in.Iter).Range
	if r == nil {
		vc.outside("next on unknown iterator in %s", fr.key)
		return Val{T: in.Type()}
	}
	if r.IsStr {
		// UTF-8 segment iteration (A7): position advances by the width of a segment
		pos := st.cells[r.PosCell]
		ok := fmt.Sprintf("(< %s (str.len %s))", pos, r.Str)
		w := vc.fresh("runew", "Int")
		rn := vc.fresh("rune", "Int")
		vc.fact(implies(and(cond, ok), fmt.Sprintf("(and (>= %s 1) (<= %s 4) (<= (+ %s %s) (str.len %s)))", w, w, pos, w, r.Str)))
		vc.fact(implies(and(cond, ok), fmt.Sprintf("(= %s (rune_at %s %s))", rn, r.Str, pos)))
		vc.declareFun("rune_at", []string{"String", "Int"}, "Int")
		vc.declareFun("rune_width", []string{"String", "Int"}, "Int")
		vc.fact(implies(and(cond, ok), fmt.Sprintf("(= %s (rune_width %s %s))", w, r.Str, pos)))
		// A7 (valid UTF-8): the segment at pos is the encoding of the rune delivered; ASCII is one byte wide
		vc.declareFun("string_of_rune", []string{"Int"}, "String")
		vc.Assumed["A7: strings ranged over are valid UTF-8: string(r) of a delivered rune is the segment it was decoded from; a segment is one byte iff its rune is ASCII"] = true
		vc.fact(implies(and(cond, ok), fmt.Sprintf("(and (= (string_of_rune %s) (str.substr %s %s %s)) (= (= %s 1) (< %s 128)) (>= %s 0))", rn, r.Str, pos, w, w, rn, rn)))
		// a valid consequence of the string theory that the solvers do not find on their own: prefix ++ segment = longer prefix
		vc.fact(implies(and(cond, ok), fmt.Sprintf("(= (str.substr %s 0 (+ %s %s)) (str.++ (str.substr %s 0 %s) (str.substr %s %s %s)))", r.Str, pos, w, r.Str, pos, r.Str, pos, w)))
		st.cells[r.PosCell] = ite(ok, fmt.Sprintf("(+ %s %s)", pos, w), pos)
		return Val{T: in.Type(), Tuple: []Val{{T: types.Typ[types.Bool], Term: ok}, {T: types.Typ[types.Int], Term: pos}, {T: types.Typ[types.Rune], Term: rn}}}
	}
	mt := r.Map.T.Underlying().(*types.Map)
	ms := vc.S.Sort(r.Map.T)
	m := r.Map.Term
	vis := st.cells[r.Visited]
	ok := vc.fresh("rng_ok", "Bool")
	k := vc.fresh("rng_k", r.KeySort)
	vc.fact(implies(and(cond, ok), and(mapHas(ms, m, k), not(fmt.Sprintf("(select %s %s)", vis, k)), not(mapNil(ms, m)))))
	vc.fact(implies(and(cond, not(ok)), fmt.Sprintf("(forall ((?k %s)) (=> (and (not %s) %s) (select %s ?k)))", r.KeySort, mapNil(ms, m), mapHas(ms, m, "?k"), vis)))
	st.cells[r.Visited] = ite(ok, fmt.Sprintf("(store %s %s true)", vis, k), vis)
	return Val{T: in.Type(), Tuple: []Val{{T: types.Typ[types.Bool], Term: ok}, {T: mt.Key(), Term: k}, {T: mt.Elem(), Term: mapGet(ms, m, k)}}}
}

func (fr *Frame) execSlice(in *ssa.Slice, cond string, st *State) Val {
	vc := fr.vc
	x := fr.val(in.X)
	lo, hi := "0", ""
	if in.Low != nil {
		lo = vc.term(st, fr.val(in.Low))
	}
	if in.High != nil {
		hi = vc.term(st, fr.val(in.High))
	}
	if isString(in.X.Type()) {
		s := vc.term(st, x)
		if hi == "" {
			hi = fmt.Sprintf("(str.len %s)", s)
		}
		vc.oblige(fr.top.oname(), "safe:slice-bounds", fr.siteLabel(), fr.top.props, cond, fmt.Sprintf("(and (<= 0 %s) (<= %s %s) (<= %s (str.len %s)))", lo, lo, hi, hi, s))
		return Val{T: in.Type(), Term: fmt.Sprintf("(str.substr %s %s (- %s %s))", s, lo, hi, lo)}
	}
	var srt string
	var cur string
	var elemT types.Type
	switch xt := in.X.Type().Underlying().(type) {
	case *types.Slice:
		srt = vc.S.Sort(xt)
		cur = vc.term(st, x)
		elemT = xt.Elem()
	case *types.Pointer: // *[N]T, e.g. slice literal backing array
		at := xt.Elem().Underlying().(*types.Array)
		srt = vc.S.Sort(at)
		loc := vc.ptrLoc(st, x)
		cur = vc.load(st, loc)
		elemT = at.Elem()
		if hi == "" {
			hi = fmt.Sprint(at.Len())
		}
		if in.Low == nil {
			// whole array as slice: len = N
			return Val{T: in.Type(), Term: mkSlice(srt, sliceArr(srt, cur), hi, "false")}
		}
	default:
		vc.outside("slice expression on %s", in.X.Type())
		return Val{T: in.Type(), Term: vc.fresh("slice", vc.S.Sort(in.Type()))}
	}
	ln := vc.sliceLen(srt, cur)
	if hi == "" {
		hi = ln
	}
	// bound is cap, which we do not model; len is the conservative bound (A3)
	vc.oblige(fr.top.oname(), "safe:slice-bounds", fr.siteLabel(), fr.top.props, cond, fmt.Sprintf("(and (<= 0 %s) (<= %s %s) (<= %s %s))", lo, lo, hi, hi, ln))
	if lo == "0" {
		return Val{T: in.Type(), Term: mkSlice(srt, sliceArr(srt, cur), hi, ite(eq(hi, "0"), sliceNil(srt, cur), "false")), Runes: x.Runes}
	}
	e := vc.S.Sort(elemT)
	arr := vc.fresh("subarr", fmt.Sprintf("(Array Int %s)", e))
	vc.fact(fmt.Sprintf("(forall ((?i Int)) (! (=> (<= 0 ?i) (= (select %s ?i) (select %s (+ ?i %s)))) :pattern ((select %s ?i))))", arr, sliceArr(srt, cur), lo, arr))
	out := Val{T: in.Type(), Term: mkSlice(srt, arr, fmt.Sprintf("(- %s %s)", hi, lo), "false")}
	if x.Runes != nil {
		out.Runes = &RuneSrc{S: x.Runes.S, Lo: fmt.Sprintf("(+ %s %s)", x.Runes.Lo, lo)}
	}
	return out
}
