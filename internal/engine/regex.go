package engine

import (
	"fmt"
	"regexp/syntax"
	"strings"
)

// RegexToSMT translates a Go (RE2, Perl flags) pattern to an SMT-LIB RegLan term
// with the semantics of regexp.MatchString (unanchored search): the result
// denotes { s | some substring of s matches, anchors respected }.
//
// The parser is the runtime's own regexp/syntax. Anything the translator does not
// know is rejected (fail closed). Go matches regular expressions rune-wise; classes are
// translated code point for code point (SMT-LIB characters), so for the ASCII-only
// grammars of /repo the byte view (A2) and the rune view of a string agree on membership.
func RegexToSMT(pattern string) (string, error) {
	re, err := syntax.Parse(pattern, syntax.Perl)
	if err != nil {
		return "", err
	}
	re = re.Simplify()
	t := &reTrans{}
	// Search semantics: Σ* r Σ*, where a leading \A (or ^ without multiline) and a
	// trailing \z (or $) remove the corresponding Σ*.
	body, begin, end, err := t.top(re)
	if err != nil {
		return "", err
	}
	parts := []string{}
	if !begin {
		parts = append(parts, "re.all")
	}
	parts = append(parts, body)
	if !end {
		parts = append(parts, "re.all")
	}
	if len(parts) == 1 {
		return parts[0], nil
	}
	return "(re.++ " + strings.Join(parts, " ") + ")", nil
}

type reTrans struct{}

// top strips anchors at the outermost concatenation.
func (t *reTrans) top(re *syntax.Regexp) (string, bool, bool, error) {
	subs := []*syntax.Regexp{re}
	if re.Op == syntax.OpConcat {
		subs = re.Sub
	}
	begin, end := false, false
	if len(subs) > 0 && (subs[0].Op == syntax.OpBeginText) {
		begin = true
		subs = subs[1:]
	}
	if len(subs) > 0 && (subs[len(subs)-1].Op == syntax.OpEndText) {
		end = true
		subs = subs[:len(subs)-1]
	}
	var ts []string
	for _, s := range subs {
		x, err := t.tr(s)
		if err != nil {
			return "", false, false, err
		}
		ts = append(ts, x)
	}
	switch len(ts) {
	case 0:
		return `(str.to_re "")`, begin, end, nil
	case 1:
		return ts[0], begin, end, nil
	}
	return "(re.++ " + strings.Join(ts, " ") + ")", begin, end, nil
}

// smtChar renders one code point as an SMT-LIB string literal.
func smtChar(r rune) string {
	if r >= 0x20 && r < 0x7f && r != '"' && r != '\\' {
		return "\"" + string(r) + "\""
	}
	return fmt.Sprintf("\"\\u{%x}\"", r)
}

func reChar(r rune) string {
	return fmt.Sprintf("(str.to_re %s)", smtChar(r))
}

// reRange: Go runes end at 0x10FFFF, SMT-LIB characters at 0x2FFFF; a class that reaches Go's maximum
// is extended to the SMT maximum so that "everything else" means the same on both sides.
func reRange(lo, hi rune) string {
	if hi >= 0x10FFFF {
		hi = 0x2FFFF
	}
	if lo == hi {
		return reChar(lo)
	}
	return fmt.Sprintf("(re.range %s %s)", smtChar(lo), smtChar(hi))
}

func (t *reTrans) tr(re *syntax.Regexp) (string, error) {
	switch re.Op {
	case syntax.OpEmptyMatch:
		return `(str.to_re "")`, nil
	case syntax.OpLiteral:
		if re.Flags&syntax.FoldCase != 0 {
			return "", fmt.Errorf("case-folded literal not supported")
		}
		for _, r := range re.Rune {
			if r > 127 {
				return "", fmt.Errorf("non-ASCII literal %q not supported (A2)", r)
			}
		}
		return fmt.Sprintf("(str.to_re %s)", strLit(string(re.Rune))), nil
	case syntax.OpCharClass:
		var alts []string
		for i := 0; i+1 < len(re.Rune); i += 2 {
			alts = append(alts, reRange(re.Rune[i], re.Rune[i+1]))
		}
		switch len(alts) {
		case 0:
			return "re.none", nil
		case 1:
			return alts[0], nil
		}
		return "(re.union " + strings.Join(alts, " ") + ")", nil
	case syntax.OpAnyCharNotNL:
		return fmt.Sprintf("(re.union %s %s)", reRange(0, 9), reRange(11, 0x10FFFF)), nil
	case syntax.OpAnyChar:
		return "re.allchar", nil
	case syntax.OpCapture:
		return t.tr(re.Sub[0])
	case syntax.OpStar:
		x, err := t.tr(re.Sub[0])
		if err != nil {
			return "", err
		}
		return "(re.* " + x + ")", nil
	case syntax.OpPlus:
		x, err := t.tr(re.Sub[0])
		if err != nil {
			return "", err
		}
		return "(re.+ " + x + ")", nil
	case syntax.OpQuest:
		x, err := t.tr(re.Sub[0])
		if err != nil {
			return "", err
		}
		return "(re.opt " + x + ")", nil
	case syntax.OpRepeat:
		x, err := t.tr(re.Sub[0])
		if err != nil {
			return "", err
		}
		if re.Max < 0 {
			return fmt.Sprintf("(re.++ ((_ re.^ %d) %s) (re.* %s))", re.Min, x, x), nil
		}
		return fmt.Sprintf("((_ re.loop %d %d) %s)", re.Min, re.Max, x), nil
	case syntax.OpConcat:
		var ts []string
		for _, s := range re.Sub {
			x, err := t.tr(s)
			if err != nil {
				return "", err
			}
			ts = append(ts, x)
		}
		return "(re.++ " + strings.Join(ts, " ") + ")", nil
	case syntax.OpAlternate:
		var ts []string
		for _, s := range re.Sub {
			x, err := t.tr(s)
			if err != nil {
				return "", err
			}
			ts = append(ts, x)
		}
		return "(re.union " + strings.Join(ts, " ") + ")", nil
	case syntax.OpBeginText, syntax.OpEndText, syntax.OpBeginLine, syntax.OpEndLine, syntax.OpWordBoundary, syntax.OpNoWordBoundary:
		return "", fmt.Errorf("anchor %v in non-outermost position not supported", re.Op)
	}
	return "", fmt.Errorf("regex operator %v not supported", re.Op)
}

// ---------------------------------------------------------------- capture groups

// RegexCaptures builds, for a pattern with named groups and a string term x, a constraint that
// holds for SOME decomposition of x along the pattern's structure, binding every named group to a
// string term ("" for groups in branches not taken). It is a sound over-approximation of
// FindStringSubmatch on a full match (A9: never uniqueness, never leftmost-first preference).
// The pattern must be anchored with \A ... \z at the top (as MustCompileAz produces).
type capBuilder struct {
	fresh func(prefix string) string
	caps  map[string]string
	order []string
}

func RegexCaptures(pattern string, x string, fresh func(prefix string) string) (string, map[string]string, []string, error) {
	re, err := syntax.Parse(pattern, syntax.Perl)
	if err != nil {
		return "", nil, nil, err
	}
	subs := []*syntax.Regexp{re}
	if re.Op == syntax.OpConcat {
		subs = re.Sub
	}
	if len(subs) < 2 || subs[0].Op != syntax.OpBeginText || subs[len(subs)-1].Op != syntax.OpEndText {
		return "", nil, nil, fmt.Errorf("pattern is not anchored with \\A...\\z")
	}
	body := &syntax.Regexp{Op: syntax.OpConcat, Sub: subs[1 : len(subs)-1]}
	if len(body.Sub) == 1 {
		body = body.Sub[0]
	}
	cb := &capBuilder{fresh: fresh, caps: map[string]string{}}
	// declare a variable for every named group up front
	var collect func(r *syntax.Regexp)
	collect = func(r *syntax.Regexp) {
		if r.Op == syntax.OpCapture && r.Name != "" {
			if _, dup := cb.caps[r.Name]; !dup {
				cb.caps[r.Name] = fresh("cap_" + r.Name)
				cb.order = append(cb.order, r.Name)
			}
		}
		for _, s := range r.Sub {
			collect(s)
		}
	}
	collect(body)
	c, err := cb.dec(body, x)
	if err != nil {
		return "", nil, nil, err
	}
	return c, cb.caps, cb.order, nil
}

func hasNamedCapture(r *syntax.Regexp) bool {
	if r.Op == syntax.OpCapture && r.Name != "" {
		return true
	}
	for _, s := range r.Sub {
		if hasNamedCapture(s) {
			return true
		}
	}
	return false
}

func namedIn(r *syntax.Regexp, acc *[]string) {
	if r.Op == syntax.OpCapture && r.Name != "" {
		*acc = append(*acc, r.Name)
	}
	for _, s := range r.Sub {
		namedIn(s, acc)
	}
}

func (cb *capBuilder) emptyCaps(r *syntax.Regexp) string {
	var names []string
	namedIn(r, &names)
	var cs []string
	for _, n := range names {
		cs = append(cs, fmt.Sprintf("(= %s \"\")", cb.caps[n]))
	}
	return and(cs...)
}

func (cb *capBuilder) dec(r *syntax.Regexp, x string) (string, error) {
	if !hasNamedCapture(r) {
		t := &reTrans{}
		l, err := t.tr(r.Simplify())
		if err != nil {
			return "", err
		}
		return fmt.Sprintf("(str.in_re %s %s)", x, l), nil
	}
	switch r.Op {
	case syntax.OpCapture:
		inner, err := cb.dec(r.Sub[0], x)
		if err != nil {
			return "", err
		}
		if r.Name != "" {
			return and(fmt.Sprintf("(= %s %s)", cb.caps[r.Name], x), inner), nil
		}
		return inner, nil
	case syntax.OpConcat:
		var parts, cs []string
		for _, s := range r.Sub {
			p := cb.fresh("seg")
			parts = append(parts, p)
			c, err := cb.dec(s, p)
			if err != nil {
				return "", err
			}
			cs = append(cs, c)
		}
		eqn := fmt.Sprintf("(= %s (str.++ %s))", x, strings.Join(parts, " "))
		if len(parts) == 1 {
			eqn = fmt.Sprintf("(= %s %s)", x, parts[0])
		}
		// a consequence the string solvers do not find on their own: when a part cannot contain the character that the
		// literal right after it starts with, that character first occurs (in the rest of the string) where the part ends -
		// so the part is determined by the string (e.g. the name in `name(args)`)
		for i := 0; i+1 < len(r.Sub); i++ {
			next := r.Sub[i+1]
			if next.Op != syntax.OpLiteral || len(next.Rune) == 0 || next.Flags&syntax.FoldCase != 0 {
				continue
			}
			c := next.Rune[0]
			if c > 127 || !excludesRune(r.Sub[i], c) {
				continue
			}
			rest := parts[i]
			if i+1 < len(parts) {
				rest = fmt.Sprintf("(str.++ %s)", strings.Join(parts[i:], " "))
			}
			cs = append(cs, fmt.Sprintf("(= (str.indexof %s %s 0) (str.len %s))", rest, strLit(string(c)), parts[i]))
		}
		return and(append([]string{eqn}, cs...)...), nil
	case syntax.OpAlternate:
		var alts []string
		for i, s := range r.Sub {
			c, err := cb.dec(s, x)
			if err != nil {
				return "", err
			}
			var others []string
			for j, o := range r.Sub {
				if j != i {
					others = append(others, cb.emptyCaps(o))
				}
			}
			alts = append(alts, and(append([]string{c}, others...)...))
		}
		return or(alts...), nil
	case syntax.OpQuest:
		c, err := cb.dec(r.Sub[0], x)
		if err != nil {
			return "", err
		}
		return or(and(fmt.Sprintf("(= %s \"\")", x), cb.emptyCaps(r.Sub[0])), c), nil
	}
	return "", fmt.Errorf("named capture group under %v is not supported", r.Op)
}

// excludesRune reports whether no string of L(r) contains the rune c (conservatively: false when unsure).
func excludesRune(r *syntax.Regexp, c rune) bool {
	switch r.Op {
	case syntax.OpEmptyMatch, syntax.OpBeginText, syntax.OpEndText, syntax.OpBeginLine, syntax.OpEndLine, syntax.OpWordBoundary, syntax.OpNoWordBoundary:
		return true
	case syntax.OpLiteral:
		if r.Flags&syntax.FoldCase != 0 {
			return false
		}
		for _, x := range r.Rune {
			if x == c {
				return false
			}
		}
		return true
	case syntax.OpCharClass:
		for i := 0; i+1 < len(r.Rune); i += 2 {
			if r.Rune[i] <= c && c <= r.Rune[i+1] {
				return false
			}
		}
		return true
	case syntax.OpCapture, syntax.OpStar, syntax.OpPlus, syntax.OpQuest, syntax.OpRepeat, syntax.OpConcat, syntax.OpAlternate:
		for _, s := range r.Sub {
			if !excludesRune(s, c) {
				return false
			}
		}
		return true
	}
	return false
}
