package main

import (
	"fmt"
	"os"

	"golang.org/x/tools/go/packages"
	"golang.org/x/tools/go/ssa"
	"golang.org/x/tools/go/ssa/ssautil"
)

func main() {
	cfg := &packages.Config{Mode: packages.LoadAllSyntax, Dir: "/repo", BuildFlags: []string{"-tags=verif"}}
	pkgs, err := packages.Load(cfg, "./...")
	if err != nil {
		fmt.Println(err)
		os.Exit(2)
	}
	prog, _ := ssautil.AllPackages(pkgs, ssa.InstantiateGenerics|ssa.GlobalDebug)
	prog.Build()
	fmt.Println(len(pkgs))
}
