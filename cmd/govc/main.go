// govc: contract-based deductive verifier for the Go subset used by gontainer/gontainer.
package main

import (
	"flag"
	"fmt"
	"os"
	"path/filepath"
	"runtime"
	"sort"
	"strings"
	"time"

	"govc/internal/engine"
)

func usage() {
	fmt.Fprintln(os.Stderr, `usage:
  govc verify [-func substr] [-prop Cnn] [-v] [-keep] [-timeout s]   developer view: all obligations with verdicts
  govc check Cnn [--tier quick|thorough]                            registered check for one property
  govc list                                                          functions under contract
  govc replay <file>                                                 re-run a replay file
  govc selftest [-only name]                                         must-fail corpus`)
	os.Exit(2)
}

func repoDir() string {
	if d := os.Getenv("GOVC_REPO"); d != "" {
		return d
	}
	return "/repo"
}

func verifDir() string {
	if d := os.Getenv("GOVC_VERIF"); d != "" {
		return d
	}
	return "/verif"
}

// memoryWatchdog aborts the process (exit 2: internal error, never a verdict) when the Go heap grows beyond 12 GiB:
// VC generation normally needs well under 1 GiB; a runaway term must not take the machine down.
func memoryWatchdog() {
	go func() {
		var m runtime.MemStats
		for {
			time.Sleep(500 * time.Millisecond)
			runtime.ReadMemStats(&m)
			if m.HeapAlloc > 12<<30 {
				fmt.Fprintf(os.Stderr, "govc: internal error: heap grew to %d MiB while generating verification conditions; aborting\n", m.HeapAlloc>>20)
				os.Exit(2)
			}
		}
	}()
}

func main() {
	if len(os.Args) < 2 {
		usage()
	}
	memoryWatchdog()
	switch os.Args[1] {
	case "verify":
		cmdVerify(os.Args[2:])
	case "check":
		os.Exit(cmdCheck(os.Args[2:]))
	case "list":
		cmdList()
	case "lock":
		os.Exit(cmdLock())
	case "units":
		cmdUnits()
	case "alarms":
		os.Exit(cmdAlarms(os.Args[2:]))
	case "seeded":
		os.Exit(cmdSeeded(os.Args[2:]))
	case "selftest":
		os.Exit(cmdSelftest(os.Args[2:]))
	case "replay":
		os.Exit(cmdReplay(os.Args[2:]))
	default:
		usage()
	}
}

func load() *engine.World {
	w, err := engine.Load(repoDir(), verifDir()+"/contracts/assumed")
	if err != nil {
		fmt.Fprintln(os.Stderr, "govc: load:", err)
		os.Exit(2)
	}
	w.LoadLocalsLock(filepath.Join(verifDir(), "locals.lock"))
	return w
}

func cmdList() {
	w := load()
	for _, k := range w.UnitKeys() {
		s := w.Specs[k]
		fmt.Printf("%-70s props=%v requires=%d ensures=%d loops=%d trusted=%v\n", k, s.Props, len(s.Requires), len(s.Ensures), len(s.Loops), s.Trusted)
	}
}

func cmdVerify(args []string) {
	fs := flag.NewFlagSet("verify", flag.ExitOnError)
	fn := fs.String("func", "", "only units whose key contains this")
	prop := fs.String("prop", "", "only obligations serving this property")
	verbose := fs.Bool("v", false, "verbose")
	deep := fs.Bool("deep", false, "also decide the thorough-only vacuity covers (exit reachable)")
	keep := fs.Bool("keep", false, "keep all query files")
	timeout := fs.Int("timeout", 10, "solver timeout (s)")
	all := fs.Bool("all", false, "include functions without contract (safety sweep)")
	dir := fs.String("dir", "/var/tmp/govc-dev", "scratch dir")
	_ = fs.Parse(args)
	t0 := time.Now()
	w := load()
	fmt.Printf("loaded in %.1fs; %d functions, %d contracts, %d lemmas\n", time.Since(t0).Seconds(), len(w.Funcs), len(w.Specs), len(w.Lemmas))
	for _, e := range w.SpecErrs {
		fmt.Println("SPEC ERROR:", e)
	}
	_ = os.MkdirAll(*dir, 0755)
	keys := w.UnitKeys()
	if *all {
		seen := map[string]bool{}
		for _, k := range keys {
			seen[k] = true
		}
		for k, f := range w.Funcs {
			if !seen[k] && f.Parent() == nil && !w.InlineOnly(f) {
				keys = append(keys, k)
			}
		}
		sort.Strings(keys)
	}
	var obls []*engine.Obligation
	var units []*engine.Unit
	for _, k := range keys {
		if *fn != "" && !strings.Contains(k, *fn) {
			continue
		}
		u := w.VerifyFunc(k)
		w.Finish(u.VC)
		units = append(units, u)
	}
	for _, ip := range w.InitUnits() {
		if *fn != "" && !strings.Contains(ip+":init", *fn) {
			continue
		}
		u := w.VerifyInit(ip)
		w.Finish(u.VC)
		units = append(units, u)
	}
	if *fn == "" || strings.Contains("structural", *fn) {
		units = append(units, w.StructuralUnit())
	}
	for _, l := range w.Lemmas {
		if *fn != "" && !strings.Contains("lemma "+l.Name, *fn) {
			continue
		}
		u := w.VerifyLemma(l)
		w.Finish(u.VC)
		units = append(units, u)
	}
	for _, u := range units {
		if u.Trusted {
			fmt.Printf("TRUSTED %s: %s\n", u.Key, u.Why)
			continue
		}
		for _, o := range u.VC.Outside {
			fmt.Printf("OUTSIDE %s: %s\n", u.Key, o)
		}
		if *verbose {
			for _, wn := range u.VC.Warn {
				fmt.Printf("warn: %s\n", wn)
			}
		}
		for _, o := range u.VC.Obls {
			if *prop != "" && !propOf(o, *prop) {
				continue
			}
			if o.Deep && !*deep {
				continue
			}
			obls = append(obls, o)
		}
	}
	fmt.Printf("generated %d obligations in %.1fs\n", len(obls), time.Since(t0).Seconds())
	res := engine.DischargeAll(obls, engine.SolveOpts{Timeout: *timeout, Dir: *dir, Keep: *keep, Parallel: 6})
	counts := map[string]int{}
	for _, r := range res {
		counts[r.Status]++
		if *verbose || (r.Status != "discharged" && r.Status != "cover-ok") {
			fmt.Printf("%-12s %-80s by=%-8s %.2fs %s  %s:%d\n", r.Status, r.Obl.Name, r.By, r.Wall, fmtAnswers(r.Answers), shortFile(r.Obl.Pos.Filename), r.Obl.Pos.Line)
			if r.Status != "discharged" && r.Status != "cover-ok" {
				fmt.Printf("             query: %s\n", r.QueryFile)
				if r.Obl.Note != "" {
					fmt.Printf("             note:  %s\n", r.Obl.Note)
				}
			}
		}
	}
	fmt.Printf("summary: %v  total %.1fs\n", counts, time.Since(t0).Seconds())
}

func shortFile(f string) string { return strings.TrimPrefix(f, "/repo/") }

func has(xs []string, x string) bool {
	for _, y := range xs {
		if y == x {
			return true
		}
	}
	return false
}

func fmtAnswers(m map[string]string) string {
	var ks []string
	for k := range m {
		ks = append(ks, k)
	}
	sort.Strings(ks)
	var out []string
	for _, k := range ks {
		v := m[k]
		if len(v) > 90 {
			v = v[:90] + "…"
		}
		out = append(out, k+"="+v)
	}
	return strings.Join(out, " ")
}
