package main

import (
	"fmt"
	"os"
	"sort"
	"strings"

	"govc/internal/engine"
)

// cmdAlarms decides every obligation of every property in one pass (one load, one VC generation) and prints, per
// property, what its quick check would report: obligations that are not discharged, units that left the modelled
// subset, locked obligation names that are no longer generated. Developer tool for corpora of changed trees (seeded
// changes, behaviour-preserving refactorings); the registered checks remain `govc check Cnn`.
func cmdAlarms(args []string) int {
	w := load()
	if len(w.SpecErrs) > 0 {
		for _, e := range w.SpecErrs {
			fmt.Println("contract error:", e)
		}
		return 2
	}
	scratch, _ := os.MkdirTemp("/var/tmp", "govc-alarms-")
	defer os.RemoveAll(scratch)
	keys := w.UnitKeys()
	seen := map[string]bool{}
	for _, k := range keys {
		seen[k] = true
	}
	for k, f := range w.Funcs {
		if !seen[k] && f.Parent() == nil && !w.InlineOnly(f) {
			keys = append(keys, k)
		}
	}
	sort.Strings(keys)
	var units []*engine.Unit
	for _, k := range keys {
		u := w.VerifyFunc(k)
		w.Finish(u.VC)
		units = append(units, u)
	}
	for _, ip := range w.InitUnits() {
		u := w.VerifyInit(ip)
		w.Finish(u.VC)
		units = append(units, u)
	}
	units = append(units, w.StructuralUnit())
	for _, l := range w.Lemmas {
		u := w.VerifyLemma(l)
		w.Finish(u.VC)
		units = append(units, u)
	}
	var obls []*engine.Obligation
	outside := map[string][]string{}
	for _, u := range units {
		if u.Trusted {
			continue
		}
		if len(u.VC.Outside) > 0 {
			outside[u.Key] = u.VC.Outside
		}
		for _, o := range u.VC.Obls {
			if !o.Deep {
				obls = append(obls, o)
			}
		}
	}
	res := engine.DischargeAll(obls, engine.SolveOpts{Timeout: 10, Dir: scratch, Parallel: 6})
	// one retry with a longer budget for what no solver decided (as the quick check does)
	var again []*engine.Obligation
	var idx []int
	for i, r := range res {
		if r.Status == "undecided" && r.By == "" {
			again, idx = append(again, r.Obl), append(idx, i)
		}
	}
	if len(again) > 0 && len(again) <= 8 {
		r2 := engine.DischargeAll(again, engine.SolveOpts{Timeout: 30, Dir: scratch, Parallel: 3})
		for k, r := range r2 {
			if r.Status == "discharged" || r.Status == "failed" {
				res[idx[k]] = r
			}
		}
	}
	known := loadKnown()
	lock := loadLock()
	props := []string{"C02", "C03", "C04", "C05", "C06", "C07", "C08", "C09", "C10", "C11", "C12", "C13", "C14", "C15", "C16", "C18"}
	alarms := 0
	for _, p := range props {
		present := map[string]bool{}
		var bad []string
		for _, r := range res {
			o := r.Obl
			if !propOf(o, p) {
				continue
			}
			present[o.Name] = true
			if lockable(o) {
				present[lockName(o.Name)] = true
			}
			if (r.Status == "discharged" || r.Status == "cover-ok") && len(outside[o.Func]) == 0 {
				continue
			}
			if matchKnown(known, p, o.Name) != nil {
				continue
			}
			why := r.Status
			if len(outside[o.Func]) > 0 {
				why = "left the modelled subset: " + outside[o.Func][0]
			}
			bad = append(bad, o.Name+" ("+why+")")
		}
		for _, n := range lock[p] {
			if !present[n] && matchKnown(known, p, n) == nil {
				bad = append(bad, n+" (locked obligation no longer generated)")
			}
		}
		if len(bad) > 0 {
			alarms++
			first := bad[0]
			if len(first) > 260 {
				first = first[:260]
			}
			fmt.Printf("ALARM %s: %d obligations, first: %s\n", p, len(bad), first)
			if os.Getenv("GOVC_ALARMS_ALL") != "" {
				for _, b := range bad[1:] {
					fmt.Println("      ", strings.TrimSpace(b))
				}
			}
		}
	}
	if alarms == 0 {
		fmt.Println("quiet")
		return 0
	}
	return 1
}
