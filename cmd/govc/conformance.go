package main

import (
	"bytes"
	"context"
	"encoding/json"
	"fmt"
	"os"
	"os/exec"
	"path/filepath"
	"regexp"
	"strings"
	"time"
)

// conformancePkgs: which bounded tests (never counted as proved) accompany which property.
//   - assumption_conformance: an assumed/trusted contract is run against the real function on a stated grid
//   - bounded_standin: exhaustive enumeration up to a stated bound for a function outside the verified subset
//   - composition_invariants: the DI composition root is evaluated for its complete (finite) input domain
var conformancePkgs = map[string][]string{
	"internal/cmd":       {"C10", "C16", "C12", "C18", "C09"},
	"internal/pkg/types": {"C11", "C02", "C03", "C04"},
	"internal/pkg/token": {"C03", "C12"},
	"internal/pkg/input": {"C18", "C11", "C06"},
}

type confResult struct {
	Name   string `json:"name"`
	Kind   string `json:"kind"`
	Cases  string `json:"cases"`
	Bound  string `json:"bound"`
	Pkg    string `json:"package"`
	Passed bool   `json:"passed"`
}

var confLine = regexp.MustCompile(`GOVC-CONF name=(\S+) kind=(\S+) cases=(\d+) bound="([^"]*)"`)

// runConformance runs the bounded tests that belong to prop; it returns the parsed results and, for failing
// packages, the test output.
func runConformance(prop, scratch string) ([]confResult, map[string]string) {
	var out []confResult
	fails := map[string]string{}
	for pkg, props := range conformancePkgs {
		if !has(props, prop) {
			continue
		}
		src := filepath.Join(verifDir(), "conformance", pkg, "zz_govc_conformance_test.go")
		if _, err := os.Stat(src); err != nil {
			continue
		}
		target := filepath.Join(repoDir(), pkg, "zz_govc_conformance_test.go")
		ov, _ := json.Marshal(map[string]any{"Replace": map[string]string{target: src}})
		ovf := filepath.Join(scratch, "conf_"+strings.ReplaceAll(pkg, "/", "_")+".json")
		_ = os.WriteFile(ovf, ov, 0644)
		ctx, cancel := context.WithTimeout(context.Background(), 180*time.Second)
		cmd := exec.CommandContext(ctx, "go", "test", "-overlay", ovf, "-vet=off", "-count=1", "-timeout", "120s", "-v", "-run", "^TestGovcConformance$", "./"+pkg)
		cmd.Dir = repoDir()
		cmd.Env = append(os.Environ(), "GOFLAGS=-mod=mod", "GOPROXY=off", "GOSUMDB=off", "GOTOOLCHAIN=local")
		var ob bytes.Buffer
		cmd.Stdout = &ob
		cmd.Stderr = &ob
		err := cmd.Run()
		cancel()
		text := ob.String()
		passed := err == nil
		found := false
		for _, m := range confLine.FindAllStringSubmatch(text, -1) {
			found = true
			out = append(out, confResult{Name: m[1], Kind: m[2], Cases: m[3], Bound: m[4], Pkg: pkg, Passed: passed})
		}
		if !passed || !found {
			if len(text) > 6000 {
				text = text[:6000] + "\n…"
			}
			fails[pkg] = text
			if !found {
				out = append(out, confResult{Name: pkg, Kind: "bounded", Pkg: pkg, Passed: false})
			}
		}
	}
	return out, fails
}

func writeConformanceReplay(dir, prop, pkg, text string) string {
	_ = os.MkdirAll(dir, 0755)
	path := filepath.Join(dir, "bounded_"+strings.ReplaceAll(pkg, "/", "_")+".json")
	doc := map[string]any{
		"property": prop,
		"kind":     "bounded test failed on the real code (assumption conformance / bounded stand-in / composition evaluation)",
		"package":  pkg,
		"test":     filepath.Join(verifDir(), "conformance", pkg, "zz_govc_conformance_test.go"),
		"how":      fmt.Sprintf("cd %s && go test -overlay <overlay mapping %s/zz_govc_conformance_test.go to the test above> -vet=off -run '^TestGovcConformance$' ./%s", repoDir(), pkg, pkg),
		"output":   text,
	}
	data, _ := json.MarshalIndent(doc, "", " ")
	_ = os.WriteFile(path, data, 0644)
	return path
}
