package main

import (
	"fmt"
	"sort"
	"time"
)

// cmdUnits times VC generation per function (all functions, with or without contract).
func cmdUnits() {
	w := load()
	var keys []string
	for k, f := range w.Funcs {
		if f.Parent() == nil {
			keys = append(keys, k)
		}
	}
	sort.Strings(keys)
	for _, k := range keys {
		t0 := time.Now()
		fmt.Printf("%-80s ", k)
		u := w.VerifyFunc(k)
		fmt.Printf("%6.2fs obls=%d outside=%d\n", time.Since(t0).Seconds(), len(u.VC.Obls), len(u.VC.Outside))
	}
}
