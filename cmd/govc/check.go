package main

import (
	"encoding/json"
	"flag"
	"fmt"
	"os"
	"os/exec"
	"path/filepath"
	"sort"
	"strconv"
	"strings"
	"sync"
	"time"

	"govc/internal/engine"
)

// KnownFinding is one entry of /verif/known_findings.json.
type KnownFinding struct {
	Property   string `json:"property"`
	Obligation string `json:"obligation"`
	Status     string `json:"status"` // "known" or "fixed"
	What       string `json:"what"`
	Commit     string `json:"commit,omitempty"`
}

func loadKnown() []KnownFinding {
	var out []KnownFinding
	data, err := os.ReadFile(filepath.Join(verifDir(), "known_findings.json"))
	if err != nil {
		return nil
	}
	_ = json.Unmarshal(data, &out)
	return out
}

// lockedObligations: property -> names that must be generated on every run.
func loadLock() map[string][]string {
	out := map[string][]string{}
	data, err := os.ReadFile(filepath.Join(verifDir(), "obligations.lock"))
	if err != nil {
		return out
	}
	_ = json.Unmarshal(data, &out)
	return out
}

func lockable(o *engine.Obligation) bool {
	return !strings.HasPrefix(o.Kind, "safe:") && !o.Cover
}

// lockName is the name under which an obligation is recorded in obligations.lock: the per-site suffix ~N (second,
// third ... back edge or call site of the same clause) is dropped, so that adding or removing a `continue` or a call
// does not by itself make a locked name disappear.
func lockName(name string) string {
	if i := strings.LastIndex(name, "~"); i > 0 {
		if _, err := strconv.Atoi(name[i+1:]); err == nil {
			return name[:i]
		}
	}
	return name
}

type checkRun struct {
	prop     string
	tier     string
	seed     int
	w        *engine.World
	units    []*engine.Unit
	selected []*engine.Obligation
	results  []*engine.Result
	start    time.Time
}

func propOf(o *engine.Obligation, p string) bool {
	if strings.HasPrefix(o.Kind, "safe:") && p == "C12" {
		return true
	}
	return has(o.Props, p)
}

func evidenceDir() string {
	if d := os.Getenv("GOVC_EVIDENCE_DIR"); d != "" {
		return d
	}
	return filepath.Join(verifDir(), "evidence")
}

func cmdCheck(args []string) int {
	if len(args) < 1 {
		usage()
	}
	prop := args[0]
	fs := flag.NewFlagSet("check", flag.ExitOnError)
	tier := fs.String("tier", "", "quick|thorough")
	keep := fs.Bool("keep", false, "keep query files")
	_ = fs.Parse(args[1:])
	if *tier == "" {
		*tier = os.Getenv("VERIF_TIER")
	}
	if *tier == "" {
		*tier = "quick"
	}
	seed, _ := strconv.Atoi(os.Getenv("VERIF_SEED"))
	run := &checkRun{prop: prop, tier: *tier, seed: seed, start: time.Now()}
	scratch, err := os.MkdirTemp("/var/tmp", "govc-check-")
	if err != nil {
		fmt.Fprintln(os.Stderr, "govc: cannot create scratch dir:", err)
		return 2
	}
	defer os.RemoveAll(scratch)

	w, err := engine.Load(repoDir(), verifDir()+"/contracts/assumed")
	if err == nil {
		w.LoadLocalsLock(filepath.Join(verifDir(), "locals.lock"))
	}
	if err != nil {
		fmt.Fprintln(os.Stderr, "govc: load:", err)
		return 2
	}
	run.w = w
	if len(w.SpecErrs) > 0 {
		for _, e := range w.SpecErrs {
			fmt.Fprintln(os.Stderr, "govc: contract error:", e)
		}
		return 2
	}
	// generate VCs for every unit (cheap) and select the obligations of this property
	keys := w.UnitKeys()
	if prop == "C12" {
		seen := map[string]bool{}
		for _, k := range keys {
			seen[k] = true
		}
		for k, f := range w.Funcs {
			if !seen[k] && f.Parent() == nil && !w.InlineOnly(f) {
				// (a helper that is only ever called statically is covered where it is executed in place)
				keys = append(keys, k)
			}
		}
		sort.Strings(keys)
	}
	for _, k := range keys {
		u := w.VerifyFunc(k)
		w.Finish(u.VC)
		run.units = append(run.units, u)
	}
	for _, ip := range w.InitUnits() {
		u := w.VerifyInit(ip)
		w.Finish(u.VC)
		run.units = append(run.units, u)
	}
	run.units = append(run.units, w.StructuralUnit())
	for _, l := range w.Lemmas {
		u := w.VerifyLemma(l)
		w.Finish(u.VC)
		run.units = append(run.units, u)
	}
	if len(w.SpecErrs) > 0 {
		for _, e := range w.SpecErrs {
			fmt.Fprintln(os.Stderr, "govc: contract error:", e)
		}
		return 2
	}
	outsideUnits := map[string][]string{}
	var trusted []string
	assumed := map[string]bool{}
	fnsUnder := map[string]bool{}
	for _, u := range run.units {
		if u.Trusted {
			trusted = append(trusted, u.Key+": "+u.Why)
			continue
		}
		n := 0
		for _, o := range u.VC.Obls {
			if o.Deep && *tier != "thorough" {
				continue // exit-reachability covers: thorough tier only
			}
			if propOf(o, prop) {
				run.selected = append(run.selected, o)
				n++
			}
		}
		if n > 0 {
			fnsUnder[u.Key] = true
			for a := range u.VC.Assumed {
				assumed[a] = true
			}
			if len(u.VC.Outside) > 0 {
				outsideUnits[u.Key] = u.VC.Outside
			}
		}
	}
	if len(run.selected) == 0 {
		fmt.Fprintf(os.Stderr, "govc: no obligations selected for %s (vacuity guard)\n", prop)
		return 2
	}
	// Solver seeds are left at their defaults (a discharged obligation must not depend on luck);
	// VERIF_SEED only drives the extra attempts of the thorough tier.
	opts := engine.SolveOpts{Timeout: 10, Dir: scratch, Keep: *keep, Parallel: 6}
	if *tier == "thorough" {
		opts.Timeout = 60
		opts.WaitAll = true
		opts.Parallel = 5
	}
	run.results = engine.DischargeAll(run.selected, opts)
	// one retry for obligations that no solver decided: first with a longer budget, in the thorough tier also reseeded
	for attempt := 1; attempt <= 2; attempt++ {
		var again []*engine.Obligation
		var idx []int
		for i, r := range run.results {
			if r.Status == "undecided" && r.By == "" {
				again = append(again, r.Obl)
				idx = append(idx, i)
			}
		}
		if len(again) == 0 || (attempt == 2 && *tier != "thorough" && len(again) > 3) {
			break
		}
		if attempt == 2 && os.Getenv("GOVC_CORPUS") != "" {
			break // corpus runs (selftest / seeded / must-fail) on changed trees: the last, 9x rung only costs time there
		}
		if len(again) > 8 && *tier != "thorough" {
			break // many undecided obligations are a broken proof, not solver jitter: do not spend minutes re-trying
		}
		o2 := opts
		o2.Timeout = opts.Timeout * 3
		o2.Parallel = 3
		if attempt == 2 && *tier == "thorough" {
			o2.Seed = seed + 7919
		}
		if attempt == 2 && *tier != "thorough" {
			// last rung of the quick tier: a handful of still undecided obligations get nine times the budget
			// (solver jitter under load must not turn into an alarm; default seeds, so nothing depends on luck)
			o2.Timeout = opts.Timeout * 9
		}
		res := engine.DischargeAll(again, o2)
		for k, r := range res {
			if r.Status == "discharged" || r.Status == "failed" {
				run.results[idx[k]] = r
			}
		}
	}

	known := loadKnown()
	lock := loadLock()
	violations := 0
	internal := 0
	var lines []string
	var samples []map[string]any
	byBackend := map[string]int{}
	solverTime := 0.0
	discharged, total := 0, 0
	var knownHits []string
	present := map[string]bool{}
	replayDir := filepath.Join(verifDir(), "replays", prop)
	if d := os.Getenv("GOVC_REPLAY_DIR"); d != "" {
		replayDir = filepath.Join(d, prop)
	}
	for _, r := range run.results {
		o := r.Obl
		present[o.Name] = true
		present[lockName(o.Name)] = true
		for _, t := range r.Times {
			solverTime += t
		}
		if o.Cover {
			// a unit whose contract no longer fits the code fails closed below (every obligation of it is a violation);
			// that its precondition cannot be compiled is part of the same report, not an internal error
			if r.Status != "cover-ok" && len(outsideUnits[o.Func]) == 0 {
				fmt.Fprintf(os.Stderr, "govc: vacuity guard failed: %s is %s %v\n", o.Name, r.Status, r.Answers)
				internal++
			}
			continue
		}
		total++
		unitOutside := len(outsideUnits[o.Func]) > 0
		if r.Status == "discharged" && !unitOutside {
			discharged++
			byBackend[r.By]++
			if len(samples) < 8 {
				samples = append(samples, map[string]any{"obligation": o.Name, "kind": o.Kind, "solver": r.By, "time_s": round3(r.Wall), "query_bytes": r.QueryBytes, "pos": fmt.Sprintf("%s:%d", shortFile(o.Pos.Filename), o.Pos.Line)})
			}
			continue
		}
		// not discharged
		why := fmt.Sprintf("status=%s answers=%s", r.Status, fmtAnswers(r.Answers))
		if o.Note != "" {
			why = o.Note
		}
		if unitOutside {
			why = "function left the modelled subset: " + strings.Join(outsideUnits[o.Func], "; ")
		}
		if kf := matchKnown(known, prop, o.Name); kf != nil {
			lines = append(lines, fmt.Sprintf("KNOWN-FINDING: property=%s %s %s", prop, o.Name, kf.What))
			knownHits = append(knownHits, o.Name)
			continue
		}
		violations++
		rp := writeReplay(replayDir, prop, r, why, scratch)
		suffix := ""
		if !rp.confirmed {
			suffix = " no-failing-input-found"
		}
		lines = append(lines, fmt.Sprintf("VIOLATION property=%s replay=%s%s", prop, rp.path, suffix))
		fmt.Fprintf(os.Stderr, "  not discharged: %s (%s) at %s:%d\n", o.Name, why, shortFile(o.Pos.Filename), o.Pos.Line)
	}
	// locked obligations that were not generated (function/loop/clause disappeared)
	for _, name := range lock[prop] {
		if !present[name] {
			if kf := matchKnown(known, prop, name); kf != nil {
				lines = append(lines, fmt.Sprintf("KNOWN-FINDING: property=%s %s %s", prop, name, kf.What))
				continue
			}
			violations++
			total++
			rp := writeMissing(replayDir, prop, name)
			lines = append(lines, fmt.Sprintf("VIOLATION property=%s replay=%s no-failing-input-found", prop, rp))
			fmt.Fprintf(os.Stderr, "  locked obligation no longer generated: %s\n", name)
		}
	}
	if internal > 0 {
		return 2
	}
	// bounded companions of the proof (never counted as discharged obligations)
	conf, confFails := runConformance(prop, scratch)
	for pkg, text := range confFails {
		violations++
		rp := writeConformanceReplay(replayDir, prop, pkg, text)
		lines = append(lines, fmt.Sprintf("VIOLATION property=%s replay=%s", prop, rp))
		fmt.Fprintf(os.Stderr, "  bounded test failed on the real code: %s\n", pkg)
	}
	for _, l := range lines {
		fmt.Println(l)
	}
	// evidence
	var fns []string
	for k := range fnsUnder {
		fns = append(fns, k)
	}
	sort.Strings(fns)
	var ass []string
	for a := range assumed {
		ass = append(ass, a)
	}
	sort.Strings(ass)
	ass = append(ass, standingAssumptions...)
	for _, t := range trusted {
		ass = append(ass, "trusted contract (body not verified): "+t)
	}
	var outs []string
	for k, v := range outsideUnits {
		outs = append(outs, k+": "+strings.Join(v, "; "))
	}
	sort.Strings(outs)
	// thorough tier: vacuity guard. The must-fail corpus of this property (hand-written breaking changes and reverted
	// fixes, each applied to a scratch copy of /repo) is run through the quick check; every one must be reported.
	// A miss is a weakness of the machinery, not of /repo: it is recorded and printed, it does not change the verdict.
	var mustFail map[string]any
	if *tier == "thorough" && violations == 0 && os.Getenv("GOVC_NO_CORPUS") == "" {
		n, caught, missed := mustFailCorpus(prop)
		mustFail = map[string]any{"mutants": n, "reported": caught, "missed": orEmpty(missed)}
		for _, m := range missed {
			fmt.Printf("WARNING: must-fail mutant %s of %s was not reported by the quick check\n", m, prop)
		}
	}
	ev := map[string]any{
		"property_id": prop,
		"tier":        *tier,
		"seed":        seed,
		"level":       "proof",
		"coverage": map[string]any{
			"obligations":                     total - len(knownHits),
			"discharged":                      discharged,
			"obligations_incl_known_findings": total,
			"known_findings":                  orEmpty(knownHits),
			"checker_cmd":                     fmt.Sprintf("bin/govc check %s --tier %s", prop, *tier),
			"trusted_base":                    trustedBase,
			"samples":                         samples,
			"by_backend":                      byBackend,
			"solver_time_s":                   round3(solverTime),
			"functions_under_contract":        orEmpty(fns),
			"functions_outside_subset":        orEmpty(outs),
			"bounded_companions":              confOrEmpty(conf),
			"must_fail_corpus":                mustFail,
			"integers":                        "mathematical Int with explicit no-overflow obligations at arithmetic sites (A1)",
			"explanation":                     "VCs generated from go/ssa of /repo's working tree (tags: verif); each obligation is facts ⊢ cond ⇒ goal, discharged iff some solver answers unsat and none answers sat",
		},
		"assumptions": ass,
		"wall_s":      round3(time.Since(run.start).Seconds()),
		"violations":  violations,
	}
	_ = os.MkdirAll(evidenceDir(), 0755)
	data, _ := json.MarshalIndent(ev, "", " ")
	_ = os.WriteFile(filepath.Join(evidenceDir(), prop+".json"), data, 0644)
	fmt.Fprintf(os.Stderr, "govc: %s %s: %d obligations, %d discharged, %d known findings, %d violations, %.1fs\n", prop, *tier, total, discharged, len(knownHits), violations, time.Since(run.start).Seconds())
	if violations > 0 {
		return 1
	}
	return 0
}

var trustedBase = []string{
	"go/types + go/ssa of golang.org/x/tools v0.29.0 (front end)",
	"govc VC generator (/verif/internal/engine), mitigated by the must-fail selftest corpus",
	"SMT solvers z3 4.8.12, z3 5.1.0, cvc5 1.0.3 (raced; no disagreement allowed)",
	"Go toolchain go1.23.5 for replays",
}

var standingAssumptions = []string{
	"A2: strings are byte sequences; one SMT character per byte",
	"A3/A4: slices and maps have value semantics; append allocates; distinct inputs do not alias",
	"A5: package-level variables are written only in init",
}

func round3(f float64) float64 { return float64(int(f*1000+0.5)) / 1000 }

func matchKnown(known []KnownFinding, prop, name string) *KnownFinding {
	for i := range known {
		k := &known[i]
		if k.Status == "known" && k.Property == prop && k.Obligation == name {
			return k
		}
	}
	return nil
}

type replayOut struct {
	path      string
	confirmed bool
}

var replayAttempts int

func writeReplay(dir, prop string, r *engine.Result, why, scratch string) replayOut {
	_ = os.MkdirAll(dir, 0755)
	name := strings.NewReplacer("/", "_", ":", "_", " ", "_", "#", "_", "(", "", ")", "", "*", "P", "$", "_").Replace(r.Obl.Name)
	path := filepath.Join(dir, name+".json")
	query, _ := os.ReadFile(r.QueryFile)
	// at most four model-driven replays per run (each costs solver time and a `go test`); further failed
	// obligations are still reported, with their query, as no-failing-input-found
	var rep *engine.ReplayInfo
	if replayAttempts < 4 {
		replayAttempts++
		rep = engine.TryReplay(r, repoDir(), scratch)
	} else {
		rep = &engine.ReplayInfo{Note: "replay not attempted: four earlier obligations of this run were already replayed"}
	}
	doc := map[string]any{
		"property":       prop,
		"obligation":     r.Obl.Name,
		"kind":           r.Obl.Kind,
		"position":       fmt.Sprintf("%s:%d", shortFile(r.Obl.Pos.Filename), r.Obl.Pos.Line),
		"why":            why,
		"solver_answers": r.Answers,
		"goal":           r.Obl.Goal,
		"path_condition": r.Obl.Cond,
		"smt2":           string(query),
		"replay":         rep,
	}
	data, _ := json.MarshalIndent(doc, "", " ")
	_ = os.WriteFile(path, data, 0644)
	return replayOut{path: path, confirmed: rep != nil && rep.Confirmed}
}

func writeMissing(dir, prop, name string) string {
	_ = os.MkdirAll(dir, 0755)
	fn := strings.NewReplacer("/", "_", ":", "_", " ", "_", "#", "_", "(", "", ")", "", "*", "P", "$", "_").Replace(name)
	path := filepath.Join(dir, fn+".json")
	doc := map[string]any{"property": prop, "obligation": name, "why": "obligation recorded in obligations.lock is no longer generated: the function, loop or clause it belongs to disappeared, so the proof no longer goes through"}
	data, _ := json.MarshalIndent(doc, "", " ")
	_ = os.WriteFile(path, data, 0644)
	return path
}

// cmdLock records the lockable obligation names per property.
func cmdLock() int {
	w := load()
	out := map[string][]string{}
	seenLock := map[string]bool{}
	add := func(u *engine.Unit) {
		for _, o := range u.VC.Obls {
			if !lockable(o) {
				continue
			}
			for _, p := range o.Props {
				if ln := lockName(o.Name); !seenLock[p+"|"+ln] {
					seenLock[p+"|"+ln] = true
					out[p] = append(out[p], ln)
				}
			}
		}
	}
	for _, k := range w.UnitKeys() {
		u := w.VerifyFunc(k)
		add(u)
	}
	for _, ip := range w.InitUnits() {
		add(w.VerifyInit(ip))
	}
	add(w.StructuralUnit())
	for _, l := range w.Lemmas {
		add(w.VerifyLemma(l))
	}
	for p := range out {
		sort.Strings(out[p])
	}
	// the variables each function declares, so that later pure renames can be recognised (World.LoadLocalsLock)
	w.Renames = nil
	ldata, _ := json.MarshalIndent(w.LocalsOf(), "", " ")
	_ = os.WriteFile(filepath.Join(verifDir(), "locals.lock"), ldata, 0644)
	data, _ := json.MarshalIndent(out, "", " ")
	if err := os.WriteFile(filepath.Join(verifDir(), "obligations.lock"), data, 0644); err != nil {
		fmt.Fprintln(os.Stderr, err)
		return 2
	}
	n := 0
	for _, v := range out {
		n += len(v)
	}
	fmt.Printf("locked %d obligation names over %d properties\n", n, len(out))
	return 0
}

func cmdReplay(args []string) int {
	if len(args) < 1 {
		usage()
	}
	data, err := os.ReadFile(args[0])
	if err != nil {
		fmt.Fprintln(os.Stderr, err)
		return 2
	}
	var doc map[string]any
	if err := json.Unmarshal(data, &doc); err != nil {
		fmt.Fprintln(os.Stderr, err)
		return 2
	}
	fmt.Printf("obligation: %v\nposition:   %v\nwhy:        %v\n", doc["obligation"], doc["position"], doc["why"])
	rep, _ := doc["replay"].(map[string]any)
	if rep == nil {
		fmt.Println("no replayable counterexample was recorded (no-failing-input-found)")
		return 0
	}
	fmt.Printf("inputs:     %v\n", rep["inputs"])
	test, _ := rep["test"].(string)
	pkg, _ := rep["package"].(string)
	if test == "" {
		fmt.Println("no generated test recorded")
		return 0
	}
	scratch, _ := os.MkdirTemp("/var/tmp", "govc-replay-")
	defer os.RemoveAll(scratch)
	out, failed := engine.RunReplayTest(repoDir(), pkg, test, scratch)
	fmt.Println(out)
	if failed {
		fmt.Println("replay: the real code violates the clause on this input")
		return 1
	}
	fmt.Println("replay: not reproduced on the current tree")
	return 0
}

func cmdSelftest(args []string) int {
	fs := flag.NewFlagSet("selftest", flag.ExitOnError)
	only := fs.String("only", "", "substring of mutant name")
	par := fs.Int("j", 3, "mutants checked in parallel")
	_ = fs.Parse(args)
	dir := filepath.Join(verifDir(), "selftest", "mutants")
	metas, _ := filepath.Glob(filepath.Join(dir, "*.json"))
	sort.Strings(metas)
	bad := 0
	ran := 0
	vsnap, self, cleanV := snapshotVerif()
	defer cleanV()
	// one snapshot of /repo's working tree for the whole run (edits made to /repo while the corpus runs do not leak in)
	base, _ := os.MkdirTemp("/var/tmp", "govc-st-base-")
	defer os.RemoveAll(base)
	if out, err := exec.Command("rsync", "-a", "--exclude", ".git", repoDir()+"/", base+"/").CombinedOutput(); err != nil {
		fmt.Printf("FAIL rsync: %v %s\n", err, out)
		return 1
	}
	var mu sync.Mutex
	var wg sync.WaitGroup
	sem := make(chan struct{}, *par)
	for _, m := range metas {
		if *only != "" && !strings.Contains(m, *only) {
			continue
		}
		var meta struct {
			Name       string   `json:"name"`
			Patch      string   `json:"patch"`
			Property   string   `json:"property"`
			Expect     []string `json:"expect_obligation_substrings"`
			ExpectPass bool     `json:"expect_pass"`
		}
		data, _ := os.ReadFile(m)
		if err := json.Unmarshal(data, &meta); err != nil {
			fmt.Printf("BAD META %s: %v\n", m, err)
			bad++
			continue
		}
		ran++
		wg.Add(1)
		sem <- struct{}{}
		go func() {
			defer wg.Done()
			defer func() { <-sem }()
			scratch, _ := os.MkdirTemp("/var/tmp", "govc-st-")
			defer os.RemoveAll(scratch)
			repo := filepath.Join(scratch, "repo")
			badpp := func() { mu.Lock(); bad++; mu.Unlock() }
			if out, err := exec.Command("rsync", "-a", base+"/", repo+"/").CombinedOutput(); err != nil {
				fmt.Printf("FAIL %s: rsync: %v %s\n", meta.Name, err, out)
				badpp()
				return
			}
			patch := meta.Patch
			if !filepath.IsAbs(patch) {
				patch = filepath.Join(dir, patch)
			}
			cmd := exec.Command("patch", "-p1", "-s", "-i", patch)
			cmd.Dir = repo
			if out, err := cmd.CombinedOutput(); err != nil {
				fmt.Printf("FAIL %s: patch does not apply: %v %s\n", meta.Name, err, out)
				badpp()
				return
			}
			bld := exec.Command("go", "build", "./...")
			bld.Dir = repo
			bld.Env = append(os.Environ(), "GOFLAGS=-mod=mod", "GOPROXY=off", "GOSUMDB=off", "GOTOOLCHAIN=local")
			if out, err := bld.CombinedOutput(); err != nil {
				fmt.Printf("FAIL %s: mutant does not compile: %s\n", meta.Name, indent(string(out)))
				badpp()
				return
			}
			c := exec.Command(self, "check", meta.Property, "--tier", "quick")
			c.Env = append(os.Environ(), "GOVC_CORPUS=1", "GOVC_REPO="+repo, "GOVC_EVIDENCE_DIR="+filepath.Join(scratch, "ev"), "GOVC_VERIF="+vsnap, "GOVC_REPLAY_DIR="+filepath.Join(scratch, "replays"))
			out, err := c.CombinedOutput()
			code := 0
			if ee, ok := err.(*exec.ExitError); ok {
				code = ee.ExitCode()
			} else if err != nil {
				code = -1
			}
			text := string(out)
			okk := true
			if meta.ExpectPass {
				okk = code == 0
			} else {
				okk = code == 1 && strings.Contains(text, "VIOLATION property="+meta.Property)
				for _, e := range meta.Expect {
					if !strings.Contains(text, e) {
						okk = false
					}
				}
			}
			if okk {
				fmt.Printf("ok   %-50s %s exit=%d\n", meta.Name, meta.Property, code)
			} else {
				fmt.Printf("FAIL %-50s %s exit=%d (expected %v)\n%s\n", meta.Name, meta.Property, code, meta.Expect, indent(text))
				badpp()
			}
		}()
	}
	wg.Wait()
	fmt.Printf("selftest: %d mutants, %d failures\n", ran, bad)
	if bad > 0 || ran == 0 {
		return 1
	}
	return 0
}

// snapshotVerif copies /verif (contracts, known findings, lock file, conformance tests) and the running binary to a
// scratch directory, so that a long corpus run is not disturbed by work going on in /verif meanwhile.
func snapshotVerif() (dir, self string, cleanup func()) {
	dir, _ = os.MkdirTemp("/var/tmp", "govc-verif-snap-")
	cleanup = func() { os.RemoveAll(dir) }
	out, err := exec.Command("rsync", "-a", "--exclude", ".git", "--exclude", "replays", "--exclude", "evidence", "--exclude", "bin", "--exclude", "seeded/*/", verifDir()+"/", dir+"/").CombinedOutput()
	if err != nil {
		fmt.Printf("snapshot of %s failed: %v %s\n", verifDir(), err, out)
	}
	exe, _ := os.Executable()
	self = filepath.Join(dir, "govc")
	data, _ := os.ReadFile(exe)
	_ = os.WriteFile(self, data, 0755)
	return dir, self, cleanup
}

// mustFailCorpus applies every selftest mutant and every seeded change of the property to a scratch copy of /repo and
// runs the quick check on it (three at a time); it returns how many there are, how many were reported and which were not.
func mustFailCorpus(prop string) (int, int, []string) {
	dir := filepath.Join(verifDir(), "selftest", "mutants")
	metas, _ := filepath.Glob(filepath.Join(dir, "*.json"))
	sort.Strings(metas)
	self, _ := os.Executable()
	base, _ := os.MkdirTemp("/var/tmp", "govc-mf-base-")
	defer os.RemoveAll(base)
	if out, err := exec.Command("rsync", "-a", "--exclude", ".git", repoDir()+"/", base+"/").CombinedOutput(); err != nil {
		fmt.Printf("WARNING: must-fail corpus skipped: rsync: %v %s\n", err, out)
		return 0, 0, nil
	}
	var mu sync.Mutex
	var wg sync.WaitGroup
	sem := make(chan struct{}, 3)
	n, caught := 0, 0
	var missed []string
	type entry struct{ Name, Patch string }
	var entries []entry
	for _, m := range metas {
		var meta struct {
			Name     string `json:"name"`
			Patch    string `json:"patch"`
			Property string `json:"property"`
		}
		data, _ := os.ReadFile(m)
		if json.Unmarshal(data, &meta) != nil || meta.Property != prop {
			continue
		}
		entries = append(entries, entry{meta.Name, filepath.Join(dir, meta.Patch)})
	}
	// the independently written seeded changes of the property (section 10 of DESIGN.md)
	seeds, _ := filepath.Glob(filepath.Join(verifDir(), "seeded", prop+"-m*", "patch.diff"))
	sort.Strings(seeds)
	for _, sp := range seeds {
		entries = append(entries, entry{"seeded/" + filepath.Base(filepath.Dir(sp)), sp})
	}
	for _, meta := range entries {
		meta := meta
		n++
		wg.Add(1)
		sem <- struct{}{}
		go func() {
			defer wg.Done()
			defer func() { <-sem }()
			scratch, _ := os.MkdirTemp("/var/tmp", "govc-mf-")
			defer os.RemoveAll(scratch)
			repo := filepath.Join(scratch, "repo")
			ok := false
			if _, err := exec.Command("rsync", "-a", base+"/", repo+"/").CombinedOutput(); err == nil {
				cmd := exec.Command("patch", "-p1", "-s", "-i", meta.Patch)
				cmd.Dir = repo
				if _, err := cmd.CombinedOutput(); err == nil {
					c := exec.Command(self, "check", prop, "--tier", "quick")
					c.Env = append(os.Environ(), "GOVC_CORPUS=1", "GOVC_REPO="+repo, "GOVC_EVIDENCE_DIR="+filepath.Join(scratch, "ev"), "GOVC_REPLAY_DIR="+filepath.Join(scratch, "replays"))
					out, err := c.CombinedOutput()
					if ee, isExit := err.(*exec.ExitError); isExit && ee.ExitCode() == 1 && strings.Contains(string(out), "VIOLATION property="+prop) {
						ok = true
					}
				}
			}
			mu.Lock()
			if ok {
				caught++
			} else {
				missed = append(missed, meta.Name)
			}
			mu.Unlock()
		}()
	}
	wg.Wait()
	sort.Strings(missed)
	return n, caught, missed
}

func indent(s string) string {
	lines := strings.Split(strings.TrimSpace(s), "\n")
	if len(lines) > 25 {
		lines = lines[len(lines)-25:]
	}
	return "     | " + strings.Join(lines, "\n     | ")
}

// cmdSeeded runs the owning property's check against every seeded change under /verif/seeded
// (each applied to a scratch copy of /repo) and reports which are caught.
func cmdSeeded(args []string) int {
	fs := flag.NewFlagSet("seeded", flag.ExitOnError)
	only := fs.String("only", "", "substring of mutant name")
	props := fs.String("props", "", "comma-separated list of extra properties to run for every mutant")
	par := fs.Int("j", 3, "mutants checked in parallel")
	_ = fs.Parse(args)
	dirs, _ := filepath.Glob(filepath.Join(verifDir(), "seeded", "*", "patch.diff"))
	sort.Strings(dirs)
	vsnap, self, cleanV := snapshotVerif()
	defer cleanV()
	type row struct {
		Mutant     string   `json:"mutant"`
		Property   string   `json:"property"`
		Caught     bool     `json:"caught"`
		Exit       int      `json:"exit"`
		Violations []string `json:"violations"`
	}
	var rows []row
	base, _ := os.MkdirTemp("/var/tmp", "govc-seed-base-")
	defer os.RemoveAll(base)
	if out, err := exec.Command("rsync", "-a", "--exclude", ".git", repoDir()+"/", base+"/").CombinedOutput(); err != nil {
		fmt.Printf("rsync failed: %v %s\n", err, out)
		return 1
	}
	var mu sync.Mutex
	var wg sync.WaitGroup
	sem := make(chan struct{}, *par)
	for _, pd := range dirs {
		pd := pd
		d := filepath.Dir(pd)
		name := filepath.Base(d)
		if *only != "" && !strings.Contains(name, *only) {
			continue
		}
		var meta struct {
			Property string `json:"property"`
		}
		data, _ := os.ReadFile(filepath.Join(d, "meta.json"))
		_ = json.Unmarshal(data, &meta)
		plist := []string{meta.Property}
		if *props != "" {
			plist = append(plist, strings.Split(*props, ",")...)
		}
		wg.Add(1)
		sem <- struct{}{}
		go func() {
			defer wg.Done()
			defer func() { <-sem }()
			scratch, _ := os.MkdirTemp("/var/tmp", "govc-seed-")
			defer os.RemoveAll(scratch)
			repo := filepath.Join(scratch, "repo")
			if out, err := exec.Command("rsync", "-a", base+"/", repo+"/").CombinedOutput(); err != nil {
				fmt.Printf("%s: rsync failed: %v %s\n", name, err, out)
				return
			}
			cmd := exec.Command("patch", "-p1", "-s", "-i", pd)
			cmd.Dir = repo
			if out, err := cmd.CombinedOutput(); err != nil {
				fmt.Printf("%s: patch does not apply: %s\n", name, out)
				mu.Lock()
				rows = append(rows, row{Mutant: name, Property: meta.Property, Exit: -2, Violations: []string{"patch does not apply"}})
				mu.Unlock()
				return
			}
			for _, p := range plist {
				c := exec.Command(self, "check", p, "--tier", "quick")
				c.Env = append(os.Environ(), "GOVC_CORPUS=1", "GOVC_REPO="+repo, "GOVC_EVIDENCE_DIR="+filepath.Join(scratch, "ev"), "GOVC_VERIF="+vsnap, "GOVC_REPLAY_DIR="+filepath.Join(scratch, "replays"))
				out, err := c.CombinedOutput()
				code := 0
				if ee, ok := err.(*exec.ExitError); ok {
					code = ee.ExitCode()
				} else if err != nil {
					code = -1
				}
				r := row{Mutant: name, Property: p, Exit: code}
				for _, l := range strings.Split(string(out), "\n") {
					if strings.Contains(l, "not discharged:") || strings.Contains(l, "no longer generated") {
						r.Violations = append(r.Violations, strings.TrimSpace(l))
					}
				}
				r.Caught = code == 1
				mu.Lock()
				rows = append(rows, r)
				mu.Unlock()
				status := "MISSED"
				if r.Caught {
					status = "caught"
				} else if code != 0 {
					status = fmt.Sprintf("ERROR(exit %d)", code)
				}
				first := ""
				if len(r.Violations) > 0 {
					first = r.Violations[0]
					if len(first) > 110 {
						first = first[:110]
					}
				}
				fmt.Printf("%-8s %-10s %-5s %s\n", status, name, p, first)
				if code != 0 && code != 1 {
					fmt.Println(indent(string(out)))
				}
			}
		}()
	}
	wg.Wait()
	sort.Slice(rows, func(i, j int) bool {
		if rows[i].Mutant != rows[j].Mutant {
			return rows[i].Mutant < rows[j].Mutant
		}
		return rows[i].Property < rows[j].Property
	})
	for i := range rows {
		if len(rows[i].Violations) > 5 {
			n := len(rows[i].Violations) - 5
			rows[i].Violations = append(rows[i].Violations[:5:5], fmt.Sprintf("... and %d more", n))
		}
	}
	resFile := filepath.Join(verifDir(), "seeded", "RESULTS.json")
	if *only != "" && *props == "" && os.Getenv("GOVC_SEEDED_MERGE") != "" {
		// a partial run requested to be merged: replace the rows of the changes just run, keep the others
		var old []row
		if data, err := os.ReadFile(resFile); err == nil {
			_ = json.Unmarshal(data, &old)
		}
		ran := map[string]bool{}
		for _, r := range rows {
			ran[r.Mutant] = true
		}
		for _, r := range old {
			if !ran[r.Mutant] {
				rows = append(rows, r)
			}
		}
		sort.Slice(rows, func(i, j int) bool { return rows[i].Mutant < rows[j].Mutant })
		data, _ := json.MarshalIndent(rows, "", " ")
		_ = os.WriteFile(resFile, data, 0644)
		return 0
	}
	data, _ := json.MarshalIndent(rows, "", " ")
	if *only == "" {
		_ = os.WriteFile(resFile, data, 0644)
	}
	return 0
}

func orEmpty(xs []string) []string {
	if xs == nil {
		return []string{}
	}
	return xs
}

func confOrEmpty(c []confResult) []confResult {
	if c == nil {
		return []confResult{}
	}
	return c
}
