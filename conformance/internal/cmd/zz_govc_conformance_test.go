package cmd

import (
	"fmt"
	"io"
	"os"
	"path/filepath"
	"reflect"
	"runtime"
	"strings"
	"testing"
	"unsafe"
)

// Composition-root EVALUATION (not proof): the real buildRunner is called for all four combinations of the two
// ignore flags and the object graph it returns is inspected. This discharges, by complete enumeration of a finite
// domain, the wiring facts the contracts take as preconditions ("wired", step order, which rule is switchable).

func govcField(v reflect.Value, name string) reflect.Value {
	f := v.FieldByName(name)
	return reflect.NewAt(f.Type(), unsafe.Pointer(f.UnsafeAddr())).Elem()
}

// govcExported makes an unexported field readable (and usable with Interface()).
func govcExported(f reflect.Value) reflect.Value {
	if f.CanInterface() || !f.CanAddr() {
		return f
	}
	return reflect.NewAt(f.Type(), unsafe.Pointer(f.UnsafeAddr())).Elem()
}

func govcDeref(v reflect.Value) reflect.Value {
	for v.Kind() == reflect.Interface || v.Kind() == reflect.Ptr {
		if v.IsNil() {
			return v
		}
		v = v.Elem()
	}
	return v
}

// govcWired reports nil interface / pointer / func fields reachable through structs of the repository.
func govcWired(v reflect.Value, path string, seen map[uintptr]bool, bad *[]string, depth int) {
	if depth > 12 {
		return
	}
	switch v.Kind() {
	case reflect.Interface, reflect.Ptr:
		if v.IsNil() {
			*bad = append(*bad, path)
			return
		}
		if v.Kind() == reflect.Ptr {
			if seen[v.Pointer()] {
				return
			}
			seen[v.Pointer()] = true
		}
		govcWired(v.Elem(), path, seen, bad, depth+1)
	case reflect.Struct:
		if !strings.HasPrefix(v.Type().PkgPath(), "github.com/gontainer/gontainer/internal") {
			return
		}
		if !v.CanAddr() {
			c := reflect.New(v.Type()).Elem()
			c.Set(v)
			v = c
		}
		for i := 0; i < v.NumField(); i++ {
			f := v.Type().Field(i)
			fv := reflect.NewAt(f.Type, unsafe.Pointer(v.Field(i).UnsafeAddr())).Elem()
			switch f.Type.Kind() {
			case reflect.Interface, reflect.Ptr, reflect.Struct, reflect.Slice:
				govcWired(fv, path+"."+f.Name, seen, bad, depth+1)
			case reflect.Func:
				if fv.IsNil() {
					*bad = append(*bad, path+"."+f.Name)
				}
			}
		}
	case reflect.Slice:
		for i := 0; i < v.Len(); i++ {
			govcWired(v.Index(i), fmt.Sprintf("%s[%d]", path, i), seen, bad, depth+1)
		}
	}
}

func TestGovcConformance(t *testing.T) {
	cases := 0
	for _, pa := range []bool{true, false} {
		for _, sa := range []bool{true, false} {
			cases++
			r := buildRunner(runnerPayload{writer: io.Discard, version: "0.0.0", buildInfo: "x", paramsExistActive: pa, servicesExistActive: sa,
				inputPatterns: []string{"a.yaml"}, outputFile: "out.go", stub: false})
			rv := reflect.ValueOf(r).Elem()
			steps := govcField(rv, "steps")
			want := []string{"runner.StepDefaultInput", "*runner.StepReadConfig", "*runner.StepCompile", "*runner.StepAmalgamated", "*runner.StepCodeGenerator"}
			if steps.Len() != len(want) {
				t.Fatalf("GOVC-CONF composition: %d runner steps", steps.Len())
			}
			var amalgamated reflect.Value
			for i := 0; i < steps.Len(); i++ {
				sw := govcDeref(steps.Index(i))
				if sw.Type().String() != "runner.StepVerboseSwitchable" {
					t.Errorf("GOVC-CONF composition: step %d is %s, not wrapped in StepVerboseSwitchable", i, sw.Type())
					continue
				}
				if !govcField(sw, "active").Bool() {
					t.Errorf("GOVC-CONF composition: top-level step %d is inactive", i)
				}
				parent := govcField(sw, "parent")
				if got := parent.Elem().Type().String(); got != want[i] {
					t.Errorf("GOVC-CONF composition: step %d is %s, want %s (the code generator must be last, validation of the output before it)", i, got, want[i])
				}
				if i == 3 {
					amalgamated = govcDeref(parent)
				}
			}
			// the four output rules: name, validator function, and which flag switches them
			rules := govcField(amalgamated, "steps")
			type rule struct {
				name, fn string
				active   bool
			}
			wantRules := []rule{
				{"Scope", "output.ValidateServicesScopes", true},
				{"Circular dependencies", "output.ValidateCircularDeps", true},
				{"Missing parameters", "output.ValidateParamsExist", pa},
				{"Missing services", "output.ValidateServicesExist", sa},
			}
			if rules.Len() != len(wantRules) {
				t.Fatalf("GOVC-CONF composition: %d output rules", rules.Len())
			}
			for i := 0; i < rules.Len(); i++ {
				sw := govcDeref(rules.Index(i))
				ru := govcDeref(govcField(sw, "parent"))
				name := govcField(ru, "ruleName").String()
				fn := runtime.FuncForPC(govcField(ru, "validator").Pointer()).Name()
				fn = fn[strings.LastIndex(fn, "/")+1:]
				active := govcField(sw, "active").Bool()
				if name != wantRules[i].name || fn != wantRules[i].fn || active != wantRules[i].active {
					t.Errorf("GOVC-CONF composition: rule %d is (%q, %s, active=%v), want (%q, %s, active=%v) for paramsExistActive=%v servicesExistActive=%v",
						i, name, fn, active, wantRules[i].name, wantRules[i].fn, wantRules[i].active, pa, sa)
				}
			}
			// every injected collaborator is non-nil ("wired" preconditions)
			var bad []string
			govcWired(reflect.ValueOf(r), "runner", map[uintptr]bool{}, &bad, 0)
			if len(bad) > 0 {
				t.Errorf("GOVC-CONF composition: nil collaborators: %v", bad)
			}
		}
	}
	// the payload reaches the collaborators it is meant for (sentinel values, looked up in the object graph)
	{
		cases++
		r := buildRunner(runnerPayload{writer: io.Discard, version: "9.8.7", buildInfo: "BI-SENT", paramsExistActive: true, servicesExistActive: true,
			inputPatterns: []string{"PAT-SENT-2", "PAT-SENT-1", "./PAT-SENT-2", "PAT-SENT-2"}, outputFile: "OUT-SENT.go", stub: true})
		steps := govcField(reflect.ValueOf(r).Elem(), "steps")
		rc := govcDeref(govcField(govcDeref(steps.Index(1)), "parent"))
		pats := govcField(rc, "patterns")
		// (not in lexical order, with a repeated pattern and one that differs only before path cleaning: the patterns must
		// arrive as given - a file matched twice is reported by StepReadConfig, not silently dropped here)
		if pats.Len() != 4 || pats.Index(0).String() != "PAT-SENT-2" || pats.Index(1).String() != "PAT-SENT-1" || pats.Index(2).String() != "./PAT-SENT-2" || pats.Index(3).String() != "PAT-SENT-2" {
			t.Errorf("GOVC-CONF composition: StepReadConfig.patterns = %v, want the input patterns in flag order", pats)
		}
		cg := govcDeref(govcField(govcDeref(steps.Index(4)), "parent"))
		if got := govcField(cg, "outputFile").String(); got != "OUT-SENT.go" {
			t.Errorf("GOVC-CONF composition: StepCodeGenerator.outputFile = %q", got)
		}
		b := govcDeref(govcField(cg, "builder"))
		if got := govcField(b, "buildInfo").String(); got != "BI-SENT" {
			t.Errorf("GOVC-CONF composition: template.Builder.buildInfo = %q", got)
		}
		if !govcField(b, "stub").Bool() {
			t.Errorf("GOVC-CONF composition: template.Builder.stub is false for stub=true")
		}
	}
	// C12 / C10: every line the verbose runner prints for a step fits the 60-column row whatever the payload is: a step's
	// display name - plus " END", a three-rune mark and one level of indentation - must stay below 60 runes, also for
	// very long output file names and patterns (Printer.PrintAlignedLn panics on a negative padding)
	{
		cases++
		long := strings.Repeat("a-very-long-name-", 20) + ".go"
		r := buildRunner(runnerPayload{writer: io.Discard, version: "1.2.3", buildInfo: strings.Repeat("info ", 40), paramsExistActive: true, servicesExistActive: true,
			inputPatterns: []string{strings.Repeat("pattern/", 40) + "*.yaml"}, outputFile: long, stub: false})
		var walk func(v reflect.Value, depth int)
		seen := map[uintptr]bool{}
		walk = func(v reflect.Value, depth int) {
			if depth > 6 || !v.IsValid() {
				return
			}
			switch v.Kind() {
			case reflect.Interface, reflect.Ptr:
				if v.IsNil() {
					return
				}
				if v.Kind() == reflect.Ptr {
					if seen[v.Pointer()] {
						return
					}
					seen[v.Pointer()] = true
				}
				if v.CanInterface() {
					if n, ok := v.Interface().(interface{ Name() string }); ok {
						if l := len([]rune(n.Name())); l+4+3+4 > 60 {
							t.Errorf("GOVC-CONF composition: the display name of %T has %d runes: its END line does not fit the 60-column row", v.Interface(), l)
						}
					}
				}
				walk(v.Elem(), depth+1)
			case reflect.Struct:
				for i := 0; i < v.NumField(); i++ {
					walk(govcExported(v.Field(i)), depth+1)
				}
			case reflect.Slice:
				for i := 0; i < v.Len(); i++ {
					walk(v.Index(i), depth+1)
				}
			}
		}
		walk(reflect.ValueOf(r), 0)
	}
	// C18: the version gate is fed the build's version (not the build info): the version validator sits behind a
	// method value, so it is evaluated by running the real runner on a two-line configuration
	for _, vc := range []struct {
		cfgVersion string
		accept     bool
	}{{"1.2.0", true}, {"1.2.9", true}, {"2.0.0", false}, {"1.3.0", false}} {
		cases++
		dir := t.TempDir()
		cfg := filepath.Join(dir, "cfg.yaml")
		if err := os.WriteFile(cfg, []byte("version: "+vc.cfgVersion+"\nparameters:\n  a: 1\n"), 0o644); err != nil {
			t.Fatal(err)
		}
		r := buildRunner(runnerPayload{writer: io.Discard, version: "1.2.3", buildInfo: "1.2.3 deadbeef-clean (build date 2026-01-01)", paramsExistActive: true,
			servicesExistActive: true, inputPatterns: []string{cfg}, outputFile: filepath.Join(dir, "out.go"), stub: false})
		err := r.Run()
		if (err == nil) != vc.accept {
			t.Errorf("GOVC-CONF composition: build 1.2.3, configuration version %s: accepted=%v, want %v (err: %v)", vc.cfgVersion, err == nil, vc.accept, err)
		}
	}
	fmt.Printf("GOVC-CONF name=composition-root kind=composition_invariants cases=%d bound=\"all 4 combinations of the two ignore flags (complete enumeration), one sentinel payload, four configuration versions against build 1.2.3\"\n", cases)
}
