package input

import (
	"errors"
	"fmt"
	"testing"

	"github.com/gontainer/gontainer-helpers/v3/grouperror"
	"golang.org/x/mod/semver"
)

// Bounded conformance tests of ASSUMED contracts used by package input's proofs:
// x/mod/semver (A12, /verif/contracts/assumed/semver.spec) and grouperror (A8, grouperror.spec).
func TestGovcConformance(t *testing.T) {
	n := 0
	type ver struct {
		s        string
		maj, min int
	}
	var vs []ver
	for maj := 0; maj <= 3; maj++ {
		for min := 0; min <= 3; min++ {
			for patch := 0; patch <= 2; patch++ {
				for _, sfx := range []string{"", "-rc.1", "+build.7", "-alpha+b"} {
					vs = append(vs, ver{fmt.Sprintf("v%d.%d.%d%s", maj, min, patch, sfx), maj, min})
				}
			}
		}
	}
	for _, v := range vs {
		n++
		if !semver.IsValid(v.s) {
			t.Errorf("GOVC-CONF semver: %s invalid", v.s)
		}
		if semver.IsValid(v.s[1:]) || semver.Major(v.s[1:]) != "" || semver.MajorMinor(v.s[1:]) != "" {
			t.Errorf("GOVC-CONF semver: %s without v is not rejected everywhere", v.s)
		}
		if semver.Major(v.s) != fmt.Sprintf("v%d", v.maj) || semver.MajorMinor(v.s) != fmt.Sprintf("v%d.%d", v.maj, v.min) {
			t.Errorf("GOVC-CONF semver: Major/MajorMinor of %s", v.s)
		}
		if !semver.IsValid(semver.MajorMinor(v.s) + ".0") {
			t.Errorf("GOVC-CONF semver: canonical form of %s invalid", v.s)
		}
	}
	for _, a := range vs {
		for _, b := range vs {
			n++
			ca, cb := semver.MajorMinor(a.s)+".0", semver.MajorMinor(b.s)+".0"
			less := a.maj < b.maj || (a.maj == b.maj && a.min < b.min)
			if (semver.Compare(ca, cb) < 0) != less {
				t.Errorf("GOVC-CONF semver: Compare(%s, %s)", ca, cb)
			}
		}
	}
	if semver.IsValid(".0") || semver.Compare(".0", ".0") != 0 || semver.Compare("v1.0.0", ".0") <= 0 || semver.Compare(".0", "v1.0.0") >= 0 {
		t.Errorf("GOVC-CONF semver: invalid versions do not compare as assumed")
	}
	if semver.IsValid("vv1.0.0") {
		t.Errorf("GOVC-CONF semver: vv1.0.0 valid")
	}
	fmt.Printf("GOVC-CONF name=x/mod/semver kind=assumption_conformance cases=%d bound=\"majors 0..3 x minors 0..3 x patches 0..2 x 4 suffixes, all pairs for Compare\"\n", n)

	// grouperror: nil iff every member is nil
	e := errors.New("e")
	lists := [][]error{nil, {}, {nil}, {nil, nil}, {e}, {nil, e}, {e, nil}, {e, e}, {nil, nil, e}}
	m := 0
	for _, l := range lists {
		m++
		allNil := true
		for _, x := range l {
			if x != nil {
				allNil = false
			}
		}
		if (grouperror.Prefix("p: ", l...) == nil) != allNil || (grouperror.Join(l...) == nil) != allNil {
			t.Errorf("GOVC-CONF grouperror: nil-iff fails for %v", l)
		}
	}
	fmt.Printf("GOVC-CONF name=grouperror.Prefix/Join kind=assumption_conformance cases=%d bound=\"9 error lists of length <= 3\"\n", m)
}
