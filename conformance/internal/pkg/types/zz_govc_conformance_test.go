package types

import (
	"fmt"
	"testing"
)

// Bounded conformance test of the TRUSTED contract of IsPrimitive (contracts_verif.go):
// scalars (nil, string, bool, int, other numeric kinds) => true; []any and map[string]any => false.
func TestGovcConformance(t *testing.T) {
	scalars := []any{nil, "", "x", true, false, 0, -1, int8(1), int16(1), int32(1), int64(1), uint(1), uint8(1), uint16(1), uint32(1), uint64(1), float32(1.5), float64(1.5)}
	containers := []any{[]any{}, []any{1, "a"}, map[string]any{}, map[string]any{"a": 1}}
	n := 0
	for _, v := range scalars {
		n++
		if !IsPrimitive(v) {
			t.Errorf("GOVC-CONF IsPrimitive: scalar %#v not primitive", v)
		}
	}
	for _, v := range containers {
		n++
		if IsPrimitive(v) {
			t.Errorf("GOVC-CONF IsPrimitive: container %#v primitive", v)
		}
	}
	fmt.Printf("GOVC-CONF name=types.IsPrimitive kind=assumption_conformance cases=%d bound=\"18 scalar and 4 container values of the dynamic kinds yaml.v3 produces\"\n", n)
}
