package token

import (
	"fmt"
	"strings"
	"testing"
)

var govcAlphabet = []string{"%", "a", "1", ".", "é"}

func govcStrings(maxLen int, f func(string)) int {
	n := 0
	var rec func(prefix string, l int)
	rec = func(prefix string, l int) {
		f(prefix)
		n++
		if l == maxLen {
			return
		}
		for _, c := range govcAlphabet {
			rec(prefix+c, l+1)
		}
	}
	rec("", 0)
	return n
}

// Bounded conformance test of the TRUSTED contract of toExpr, and bounded STAND-IN for Chunker.Chunks
// (a rune loop with a string builder that is outside the verified subset).
func TestGovcConformance(t *testing.T) {
	// toExpr: ok <=> len >= 2 && starts and ends with "%"; ok => expr == "%"+inner+"%"; !ok => inner == ""
	n := govcStrings(6, func(s string) {
		inner, ok := toExpr(s)
		want := len(s) >= 2 && strings.HasPrefix(s, "%") && strings.HasSuffix(s, "%")
		if ok != want {
			t.Errorf("GOVC-CONF toExpr(%q): ok=%v want %v", s, ok, want)
		}
		if ok && s != "%"+inner+"%" {
			t.Errorf("GOVC-CONF toExpr(%q): inner=%q", s, inner)
		}
		if !ok && inner != "" {
			t.Errorf("GOVC-CONF toExpr(%q): inner=%q for !ok", s, inner)
		}
	})
	fmt.Printf("GOVC-CONF name=token.toExpr kind=assumption_conformance cases=%d bound=\"all strings of length <= 6 over {%%, a, 1, ., é}\"\n", n)

	// Chunks: error <=> odd number of "%"; otherwise the chunks concatenate to s, each chunk is either
	// "%"-free and non-empty or "%" [^%]* "%", no two "%"-free chunks are adjacent, Chunks("") == [""]
	c := NewChunker()
	m := govcStrings(7, func(s string) {
		chunks, err := c.Chunks(s)
		odd := strings.Count(s, "%")%2 == 1
		if (err != nil) != odd {
			t.Errorf("GOVC-CONF Chunks(%q): err=%v, odd number of %% = %v", s, err, odd)
			return
		}
		if err != nil {
			return
		}
		if s == "" {
			if len(chunks) != 1 || chunks[0] != "" {
				t.Errorf("GOVC-CONF Chunks(\"\") = %q", chunks)
			}
			return
		}
		if strings.Join(chunks, "") != s {
			t.Errorf("GOVC-CONF Chunks(%q) = %q does not concatenate to the input", s, chunks)
		}
		prevPlain := false
		for _, ch := range chunks {
			plain := !strings.Contains(ch, "%")
			if plain {
				if ch == "" || prevPlain {
					t.Errorf("GOVC-CONF Chunks(%q) = %q: empty or adjacent plain chunks", s, chunks)
				}
			} else if !(len(ch) >= 2 && ch[0] == '%' && ch[len(ch)-1] == '%' && strings.Count(ch, "%") == 2) {
				t.Errorf("GOVC-CONF Chunks(%q) = %q: malformed delimited chunk %q", s, chunks, ch)
			}
			prevPlain = plain
		}
	})
	fmt.Printf("GOVC-CONF name=token.Chunker.Chunks kind=bounded_standin cases=%d bound=\"all strings of length <= 7 over {%%, a, 1, ., é}\"\n", m)
}
